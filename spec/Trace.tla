-------------------------------- MODULE Trace --------------------------------
(***************************************************************************)
(* Trace validation: the ndjson log written by the executor (one line per  *)
(* public call on the real crate, with arguments and the complete          *)
(* observable result) is consumed line by line.  A line conforms iff the   *)
(* specification (Api) allows exactly that result for those arguments in   *)
(* the current abstract state.  Sessions start with a "reset" line; a      *)
(* non-conforming line is reported (NONCONFORMING <line>) and validation    *)
(* resumes at the next session, so one run reports every violating         *)
(* session.  The run is accepted only if TRACE-END is reached.             *)
(***************************************************************************)
EXTENDS Api, Json, IOUtils

Rec == ndJsonDeserialize(IOEnv.TRACE)
NRec == Len(Rec)
Resets == {i \in 1..NRec : Rec[i].op = "reset"}

VARIABLES l, nbad
tvars == << vars, l, nbad >>

NextReset(i) == LET later == {j \in Resets : j > i} IN IF later = {} THEN NRec + 1 ELSE Min(later)

NoBld == [cfg |-> None]
InitState ==
    /\ bld = NoBld /\ ann = None /\ wr = None /\ img = <<>>
    /\ cit = NoCit /\ nit = [ws |-> <<>>, its |-> <<>>]

ResetState ==
    /\ bld' = NoBld /\ ann' = None /\ wr' = None /\ img' = <<>>
    /\ cit' = NoCit /\ nit' = [ws |-> <<>>, its |-> <<>>]

TraceInit == InitState /\ l = 1 /\ nbad = 0

IsImageSrc(ev) == Has(ev, "src") /\ ev.src = "image" /\ ~Has(ev, "edits") /\ ~Has(ev, "trunc") /\ ~Has(ev, "append")

\* round-trip context: the input is the image that the current, accepted configuration just wrote
RtCtx(ev) == IsImageSrc(ev) /\ ~IsNone(bld.cfg) /\ ~IsNone(wr) /\ IsOk(wr.res) /\ Accepts(bld.cfg)

\* a raw / third-party member that impersonates a built-in packet type need not parse as that type
\* (e.g. UnknownBuilder(type 200) with a 4-byte body is not a sender report): the parse-back clause
\* of C14 is stated for members that parse on their own
LeafParses(leaf) ==
    CASE leaf.kind = "unk"    -> leaf.type \notin 200..206
      [] leaf.kind = "custom" -> leaf.pt \notin 200..206 /\ Size(leaf) >= leaf.min
      [] OTHER -> TRUE

\* the tiling of a compound input: computed, or for very long inputs a generator hint VALIDATED in one pass
TilingFor(ev) ==
    IF Has(ev, "hint")
    THEN IF IsTilingWitness(ev.b, ev.hint) THEN ev.hint
         ELSE Assert(FALSE, << "TOOL-ERROR: invalid tiling hint at line", l >>)
    ELSE Tiling(ev.b)

\* ---- conformance of one logged event in the current state
ParseEvConf(ev) ==
    /\ P("C01") => ev.panics = <<>>
    /\ CASE ev.kind \in PacketKinds \cup {"unknown", "rb"} -> TypedConf(ev.kind, ev.b, ev.res, 0)
         [] ev.kind = "packet" -> PacketConf(ev.b, ev.res, None, 0)
         [] ev.kind \in FciTypes -> FciDirectConf(ev.kind, ev.b, ev.res)
         [] ev.kind = "custom" -> CustomConf(ev.fam, ev.b, ev.res)
    \* round trip: the image just written from bld parses back to bld's configuration
    /\ (RtCtx(ev) /\ ev.kind \in PacketKinds /\ ev.kind = bld.cfg.kind /\ P(RoundTripProp(ev.kind))) =>
          /\ ev.b = img
          /\ IsOk(ev.res)
          /\ RoundTripOk(bld.cfg, ev.b, ev.res.view, 0)
    /\ (RtCtx(ev) /\ ev.kind = "packet" /\ P("C19") /\ bld.cfg.kind \in {"unk", "custom"}) =>
          LET pt == IF bld.cfg.kind = "unk" THEN bld.cfg.type ELSE bld.cfg.pt
          IN  /\ ev.b = img
              /\ (pt \notin 200..206 /\ (bld.cfg.kind = "unk" \/ Size(bld.cfg) >= bld.cfg.min)) =>
                    /\ IsOk(ev.res)
                    /\ ev.res.view.variant = "unknown"
                    /\ ev.res.view.inner.data.o = 0 /\ ev.res.view.inner.data.n = Len(img)
    /\ (RtCtx(ev) /\ ev.kind = "custom" /\ P("C19") /\ bld.cfg.kind = "custom") =>
          LET d == ev.res.direct
              c == bld.cfg
              fix == IF c.has_ssrc THEN 8 ELSE 4
          IN  /\ ev.b = img
              /\ (Len(img) >= c.min) =>
                    /\ IsOk(d) /\ ev.res.via_packet = d /\ ev.res.via_unknown = d
                    /\ d.view.hdr.count = c.count /\ d.view.hdr.padding = PadView(c.padding) /\ d.view.hdr.type = c.pt
                    /\ c.has_ssrc => d.view.ssrc = c.ssrc
                    /\ d.view.payload.o = fix /\ Slice(img, fix, d.view.payload.n) = c.payload

ParseAllConf(ev) ==
    /\ P("C01") => ev.panics = <<>>
    /\ PacketConf(ev.b, ev.res, ev.typed, 0)
    /\ \A k \in PacketKinds \cup {"unknown"} : TypedConf(k, ev.b, ev.typed[k], 0)

ParsePadConf(ev) ==
    /\ ev.padded = Pad(ev.b, ev.n)         \* the harness built the padded string: validated, not trusted
    /\ P("C01") => ev.panics = <<>>
    /\ PadPairConf(ev.kind, ev.b, ev.n, ev.padded, ev.res, ev.res_padded)

StandaloneCfg(ev) == IF ev.op = "item_write" THEN [kind |-> "item", item |-> ItemCfg(ev.item)]
                     ELSE [kind |-> "chunk", chunk |-> ChunkCfg(ev.chunk)]
\* the standalone SDES item / chunk writers have no public size call: judged against the image directly
StandaloneConf(ev) ==
    LET c == StandaloneCfg(ev)
        n == Size(c)
    IN  /\ (P("C06") \/ P("C01")) => ~IsPanic(ev.res)
        /\ (P("C06") \/ P("C16")) =>
              IF Accepts(c)
              THEN IF ev.len >= n THEN IsOk(ev.res) /\ ev.res.n = n
                   ELSE IsErr(ev.res) /\ AsErr(ev.res) = Err("OutputTooSmall", << n >>)
              ELSE IsErr(ev.res) /\ WriteErrAllowed(c, AsErr(ev.res))
        /\ WriteConf(c, None, None, ev.len, ev.fill, ev.res, ev.out)

Conf(ev) ==
    CASE ev.op \in {"reset", "call", "wrap", "nack_iter"} -> TRUE
      [] ev.op = "calc_size"   -> CalcSizeConf(bld.cfg, ev.res)
      [] ev.op = "write_into"  -> /\ Len(ev.out) = ev.len
                                  /\ WriteConf(bld.cfg, ann, wr, ev.len, ev.fill, ev.res, ev.out)
      [] ev.op = "write_twice" -> /\ Len(ev.out) = ev.len /\ Len(ev.out1) = ev.len
                                  /\ WriteConf(bld.cfg, ann, None, ev.len, 0, ev.res, ev.out)
                                  /\ WriteConf(bld.cfg, ann, [L |-> ev.len, fill |-> 0, res |-> ev.res, out |-> ev.out, same |-> TRUE],
                                               ev.len, 1, ev.res1, ev.out1)
      [] ev.op = "get_padding" -> GetPaddingConf(bld.cfg, ev.res)
      [] ev.op \in {"item_write", "chunk_write"} -> StandaloneConf(ev)
      [] ev.op = "parse"       -> ParseEvConf(ev)
      [] ev.op = "parse_all"   -> ParseAllConf(ev)
      [] ev.op = "parse_pad"   -> ParsePadConf(ev)
      [] ev.op = "cparse"      -> CParseConf(ev.b, ev.res, TilingFor(ev))
      [] ev.op = "cnext"       -> IF cit.valid THEN CNextConf(cit, ev) ELSE ev.res.t = "closed"
      [] ev.op = "nack_open"   -> (P("C01") \/ P("C15")) => IsOk(ev.res)
      [] ev.op = "nack_next"   -> NackNextConf(nit.its[ev.it + 1], ev.res)
      [] ev.op = "check_padding" -> CheckPaddingConf(ev.p, ev.res)
      [] ev.op = "write_header"  -> WriteHeaderConf(Family[ev.fam + 1][1], ev.p, ev.cnt, ev.len, ev.hlen, ev.fill, ev.res, ev.out)
      [] ev.op = "write_padding" -> WritePaddingConf(ev.p, ev.len, ev.fill, ev.res, ev.out)
      [] ev.op = "parse_helpers" -> ParseHelpersConf(ev.b, ev.res, ev.panics)

\* ---- effect of one event on the abstract state
Update(ev) ==
    CASE ev.op = "reset" -> ResetState
      [] ev.op = "call" ->
            /\ bld' = [cfg |-> IF ev.c.c = "new" THEN NewCfg(ev.kind, ev.c) ELSE ApplyCall(bld.cfg, ev.c)]
            /\ ann' = None /\ wr' = None
            /\ UNCHANGED << img, cit, nit >>
      [] ev.op = "wrap" ->
            \* PacketBuilder::from has no abstract effect; a one-member compound is the compound of that member
            /\ bld' = [cfg |-> IF ev.how = "compound1" THEN [kind |-> "compound", members |-> << bld.cfg >>] ELSE bld.cfg]
            /\ ann' = None /\ wr' = None
            /\ UNCHANGED << img, cit, nit >>
      [] ev.op = "calc_size" -> ann' = ev.res /\ UNCHANGED << bld, wr, img, cit, nit >>
      [] ev.op = "write_into" ->
            /\ wr' = [L |-> ev.len, fill |-> ev.fill, res |-> ev.res, out |-> ev.out, same |-> FALSE]
            /\ img' = IF IsOk(ev.res) /\ ev.res.n <= Len(ev.out) THEN SubSeq(ev.out, 1, ev.res.n) ELSE img
            /\ UNCHANGED << bld, ann, cit, nit >>
      [] ev.op = "write_twice" ->
            /\ wr' = [L |-> ev.len, fill |-> 0, res |-> ev.res, out |-> ev.out, same |-> FALSE]
            /\ img' = IF IsOk(ev.res) /\ ev.res.n <= Len(ev.out) THEN SubSeq(ev.out, 1, ev.res.n) ELSE img
            /\ UNCHANGED << bld, ann, cit, nit >>
      [] ev.op = "cparse" ->
            /\ cit' = CitAfterParse(ev.b, ev.res,
                         IF RtCtx(ev) /\ bld.cfg.kind = "compound" /\ ev.b = img
                            /\ \A i \in 1..Len(Leaves(bld.cfg)) : LeafParses(Leaves(bld.cfg)[i])
                         THEN Leaves(bld.cfg) ELSE <<>>, TilingFor(ev))
            /\ UNCHANGED << bld, ann, wr, img, nit >>
      [] ev.op = "cnext" -> cit' = CitAfterNext(cit, ev.res) /\ UNCHANGED << bld, ann, wr, img, nit >>
      [] ev.op = "nack_open" -> nit' = [ws |-> NackWordsOf(ev.b), its |-> <<>>] /\ UNCHANGED << bld, ann, wr, img, cit >>
      [] ev.op = "nack_iter" ->
            /\ nit' = [nit EXCEPT !.its = [i \in 1..Max2(Len(nit.its), ev.it + 1) |->
                                             IF i = ev.it + 1 THEN [ws |-> nit.ws, w |-> 1, k |-> 0]
                                             ELSE IF i <= Len(nit.its) THEN nit.its[i] ELSE [ws |-> <<>>, w |-> 1, k |-> 0]]]
            /\ UNCHANGED << bld, ann, wr, img, cit >>
      [] ev.op = "nack_next" ->
            /\ LET it == nit.its[ev.it + 1]
                   s  == NackStep(it.ws, it.w, it.k)
               IN  nit' = [nit EXCEPT !.its[ev.it + 1] = [it EXCEPT !.w = s.w, !.k = s.k]]
            /\ UNCHANGED << bld, ann, wr, img, cit >>
      [] OTHER -> UNCHANGED vars

\* Classification of a nonconforming event for the known-findings file: a specific signature computed
\* from the abstract state, "-" when the event is not of a recorded class.
RECURSIVE OversizeLeaf(_)
OversizeLeaf(c) ==
    IF c.kind = "compound"
    THEN LET bad == {i \in 1..Len(c.members) : TooBig(c.members[i])} IN OversizeLeaf(c.members[Min(bad)])
    ELSE IF c.kind \in {"tfb", "pfb"} THEN c.kind \o "/" \o c.fci.f ELSE c.kind
FindingClass(ev) ==
    IF /\ ev.op \in {"calc_size", "write_into", "write_twice"}
       /\ ~IsNone(bld.cfg) /\ LocalRules(bld.cfg) = {} /\ TooBig(bld.cfg)
       /\ IsOk(ev.res) /\ ev.res.n = Size(bld.cfg)
    THEN "oversize-accepted:" \o OversizeLeaf(bld.cfg)
    ELSE "-"

TraceNext ==
    \/ /\ l <= NRec
       /\ LET ev == Rec[l]
          IN  IF Conf(ev)
              THEN Update(ev) /\ l' = l + 1 /\ nbad' = nbad
              ELSE /\ PrintT(<< "NONCONFORMING", l, ev.op, FindingClass(ev) >>)
                   /\ ResetState /\ l' = NextReset(l) /\ nbad' = nbad + 1
    \/ /\ l = NRec + 1
       /\ PrintT(<< "TRACE-END", NRec, nbad >>)
       /\ l' = l + 1 /\ UNCHANGED << vars, nbad >>

TraceSpec == TraceInit /\ [][TraceNext]_tvars
=============================================================================
