-------------------------------- MODULE Trace --------------------------------
(***************************************************************************)
(* Trace validation: the ndjson log written by the executor (one line per  *)
(* public call on the real crate, with arguments and the complete          *)
(* observable result) is consumed line by line.  A line conforms iff the   *)
(* specification (Api) allows exactly that result for those arguments in   *)
(* the current abstract state.  Sessions start with a "reset" line; a      *)
(* non-conforming line is reported (NONCONFORMING <line>) and validation    *)
(* resumes at the next session, so one run reports every violating         *)
(* session.  The run is accepted only if TRACE-END is reached.             *)
(***************************************************************************)
EXTENDS Api, Json, IOUtils

Rec == ndJsonDeserialize(IOEnv.TRACE)
NRec == Len(Rec)
Resets == {i \in 1..NRec : Rec[i].op = "reset"}

VARIABLES l, nbad
tvars == << vars, l, nbad >>

NextReset(i) == LET later == {j \in Resets : j > i} IN IF later = {} THEN NRec + 1 ELSE Min(later)

TraceInit == InitState /\ l = 1 /\ nbad = 0

\* Classification of a nonconforming event for the known-findings file: a specific signature computed
\* from the abstract state, "-" when the event is not of a recorded class.
RECURSIVE OversizeLeaf(_)
OversizeLeaf(c) ==
    IF c.kind = "compound"
    THEN LET bad == {i \in 1..Len(c.members) : TooBig(c.members[i])} IN OversizeLeaf(c.members[Min(bad)])
    \* feedback: "+padding" when the packet without its padding would still fit (the FCI builders with a limit of
    \* their own - FIR, NACK - can only get there through the padding; more entries than that limit is another defect)
    ELSE IF c.kind \in {"tfb", "pfb"}
         THEN c.kind \o "/" \o c.fci.f
              \o (IF c.fci.f \in {"fir", "nack"} /\ Size([c EXCEPT !.padding = 0]) <= MaxBytes THEN "+padding" ELSE "")
         ELSE c.kind
FindingClass(ev) ==
    IF /\ ev.op \in {"calc_size", "write_into", "write_twice"}
       /\ ~IsNone(bld.cfg) /\ LocalRules(bld.cfg) = {} /\ TooBig(bld.cfg)
       /\ IsOk(ev.res) /\ ev.res.n = Size(bld.cfg)
    THEN "oversize-accepted:" \o OversizeLeaf(bld.cfg)
    ELSE "-"

TraceNext ==
    \/ /\ l <= NRec
       /\ LET ev == Rec[l]
          IN  IF Conf(ev)
              THEN Update(ev) /\ l' = l + 1 /\ nbad' = nbad
              ELSE /\ PrintT(<< "NONCONFORMING", l, ev.op, FindingClass(ev) >>)
                   /\ ResetState /\ l' = NextReset(l) /\ nbad' = nbad + 1
    \/ /\ l = NRec + 1
       /\ PrintT(<< "TRACE-END", NRec, nbad >>)
       /\ l' = l + 1 /\ UNCHANGED << vars, nbad >>

TraceSpec == TraceInit /\ [][TraceNext]_tvars
=============================================================================
