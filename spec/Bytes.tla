------------------------------- MODULE Bytes -------------------------------
(***************************************************************************)
(* Byte-string algebra used by the RTCP wire model.                        *)
(*                                                                         *)
(* The wire is Seq(0..255).  TLC integers are 32-bit signed, so 32-bit     *)
(* fields are carried as two 16-bit limbs <<hi, lo>> and 64-bit fields as  *)
(* four limbs; byte order is defined HERE (big-endian, RFC 3550 s.4), not   *)
(* in the harness, which only splits with shifts and masks.                *)
(***************************************************************************)
EXTENDS Naturals, Integers, Sequences, FiniteSets, SequencesExt

Byte == 0..255
U16  == 0..65535

Pad4(n) == ((n + 3) \div 4) * 4

Zeros(n) == [i \in 1..n |-> 0]

Min2(a, b) == IF a < b THEN a ELSE b
Max2(a, b) == IF a > b THEN a ELSE b

BE16(x) == << x \div 256, x % 256 >>
BE32(w) == << w[1] \div 256, w[1] % 256, w[2] \div 256, w[2] % 256 >>
BE64(q) == BE16(q[1]) \o BE16(q[2]) \o BE16(q[3]) \o BE16(q[4])

\* 1-based readers
U16At(b, i) == b[i] * 256 + b[i + 1]
U32At(b, i) == << U16At(b, i), U16At(b, i + 2) >>
U64At(b, i) == << U16At(b, i), U16At(b, i + 2), U16At(b, i + 4), U16At(b, i + 6) >>

\* the n bytes at 0-based offset off (RFC pictures are 0-based)
Slice(b, off, n) == SubSeq(b, off + 1, off + n)

IsBytes(b) == \A i \in 1..Len(b) : b[i] \in Byte

\* concatenation of a sequence of sequences, divide and conquer (shallow recursion, O(n log n) copying)
RECURSIVE FlatR(_, _, _)
FlatR(ss, lo, hi) ==
    IF lo > hi THEN <<>>
    ELSE IF lo = hi THEN ss[lo]
    ELSE LET m == (lo + hi) \div 2 IN FlatR(ss, lo, m) \o FlatR(ss, m + 1, hi)
Flat(ss) == FlatR(ss, 1, Len(ss))

\* concatenation of a sequence of w-byte entries, O(n)
FlatFixed(ss, w) == [i \in 1..(Len(ss) * w) |-> ss[(i - 1) \div w + 1][((i - 1) % w) + 1]]

AllZero(b, lo, hi) == \A i \in lo..hi : b[i] = 0     \* 1-based inclusive range

\* Split b (length a multiple of w) into Len(b) \div w words of w bytes; a trailing partial word is dropped
Words(b, w) == [i \in 1..(Len(b) \div w) |-> SubSeq(b, (i - 1) * w + 1, i * w)]

\* sequences as bags: same elements with the same multiplicities
SameBag(s, t) ==
    /\ Len(s) = Len(t)
    /\ IF Cardinality(ToSet(s)) = Len(s)
       THEN ToSet(t) = ToSet(s)              \* no repetitions (FIR maps): equal as sets, O(n log n)
       ELSE \A i \in 1..Len(s) :
               Cardinality({j \in 1..Len(s) : s[j] = s[i]}) = Cardinality({j \in 1..Len(t) : t[j] = s[i]})

\* low-bit mask helpers (RPSI trailing bits)
RECURSIVE Pow2(_)
Pow2(n) == IF n = 0 THEN 1 ELSE IF n = 1 THEN 2 ELSE IF n = 2 THEN 4 ELSE IF n = 3 THEN 8
           ELSE IF n = 4 THEN 16 ELSE IF n = 5 THEN 32 ELSE IF n = 6 THEN 64 ELSE IF n = 7 THEN 128
           ELSE IF n = 8 THEN 256 ELSE 256 * Pow2(n - 8)
ClearLow(x, n) == (x \div Pow2(n)) * Pow2(n)       \* clear the n low bits of x

\* Bits as an explicit 0/1 sequence (exact, used for equality of bit strings)
ByteBits(x) == << (x \div 128) % 2, (x \div 64) % 2, (x \div 32) % 2, (x \div 16) % 2,
                  (x \div 8) % 2, (x \div 4) % 2, (x \div 2) % 2, x % 2 >>
BitsOf(bytes, ign) ==
    LET n == Len(bytes) * 8 - ign
    IN  IF n <= 0 THEN <<>>
        ELSE [i \in 1..n |-> ByteBits(bytes[(i - 1) \div 8 + 1])[((i - 1) % 8) + 1]]

\* Well-formed UTF-8 (RFC 3629 / Unicode table 3-7: no overlong forms, no surrogates, nothing above U+10FFFF)
Cont(x) == x \in 128..191
RECURSIVE Utf8From(_, _)
Utf8From(b, i) ==
    IF i > Len(b) THEN TRUE
    ELSE LET c == b[i]
             n == Len(b)
         IN  IF c < 128 THEN Utf8From(b, i + 1)
             ELSE IF c \in 194..223 THEN i + 1 <= n /\ Cont(b[i + 1]) /\ Utf8From(b, i + 2)
             ELSE IF c \in 224..239
                  THEN /\ i + 2 <= n
                       /\ b[i + 1] \in (IF c = 224 THEN 160..191 ELSE IF c = 237 THEN 128..159 ELSE 128..191)
                       /\ Cont(b[i + 2]) /\ Utf8From(b, i + 3)
             ELSE IF c \in 240..244
                  THEN /\ i + 3 <= n
                       /\ b[i + 1] \in (IF c = 240 THEN 144..191 ELSE IF c = 244 THEN 128..143 ELSE 128..191)
                       /\ Cont(b[i + 2]) /\ Cont(b[i + 3]) /\ Utf8From(b, i + 4)
             ELSE FALSE
IsUtf8(b) == Utf8From(b, 1)

\* the prefix of b before its first zero byte (a fixed-size, possibly zero-terminated name)
UntilZero(b) == LET z == { i \in 1..Len(b) : b[i] = 0 } IN IF z = {} THEN b ELSE SubSeq(b, 1, Min2(Len(b), CHOOSE i \in z : \A j \in z : i <= j) - 1)
=============================================================================
