INIT Init
NEXT Next
