------------------------------- MODULE MC_Nack -------------------------------
(***************************************************************************)
(* Bounded model of the generic-NACK entry iterator (C15, C01).            *)
(*                                                                         *)
(* The iterator is specified OPERATIONALLY in Api (state [w, k]: word      *)
(* index and bit index, the anchors of C15; one step = NackStep) and the   *)
(* decode law is specified DENOTATIONALLY in Wire (DecNack: per word, the  *)
(* PID then PID + k mod 2^16 for each set bit k-1 in increasing k).  This   *)
(* model runs up to two iterators over the same parsed NACK, interleaved    *)
(* in every order, and checks on every reachable state that               *)
(*   Prefix      what an iterator has yielded so far is a prefix of DecNack *)
(*   Complete    an iterator that returned None has yielded all of DecNack  *)
(*   Measure     the progress measure 18 * (words left) - k is >= 0 and     *)
(*               strictly decreases with every yielded entry (termination)  *)
(*   Fused       after None, None forever                                    *)
(*   BoundedK    k stays within 0..17                                        *)
(* Every complete behaviour is printed as a script for replay on the crate. *)
(***************************************************************************)
EXTENDS Api, Json

CONSTANTS MaxWords, MaxSecond     \* words in the FCI; max next() calls on the second iterator

VARIABLES h, outs, done, cnt
mvars == << vars, h, outs, done, cnt >>

PIDs == { 0, 1, 65519, 65520, 65535 }
BLPs == { 0, 1, 2, 32768, 32769, 65535, 21845 }
WordOf(p, m) == BE16(p) \o BE16(m)
WordLists == UNION { [1..n -> PIDs \X BLPs] : n \in 0..MaxWords }
Strays == { <<>>, << 9 >>, << 1, 2, 3 >> }          \* a trailing partial word (direct entry point only)
Fci(wl, st) == Flat([i \in 1..Len(wl) |-> WordOf(wl[i][1], wl[i][2])]) \o st

MCInit == InitState /\ h = <<>> /\ outs = << <<>>, <<>> >> /\ done = << FALSE, FALSE >> /\ cnt = << 0, 0 >>

DoOpen ==
    /\ h = <<>>
    /\ \E wl \in WordLists, st \in Strays :
          LET b == Fci(wl, st)
          IN  /\ Step([op |-> "nack_open", b |-> b, res |-> [t |-> "ok"]])
              /\ h' = << [op |-> "reset", sid |-> "MC_Nack"], [op |-> "nack_open", b |-> b] >>
    /\ UNCHANGED << outs, done, cnt >>

DoIters ==      \* both iterators are created up front (entries() twice on the same value)
    /\ Len(h) = 2
    /\ nit' = [nit EXCEPT !.its = << [ws |-> nit.ws, w |-> 1, k |-> 0], [ws |-> nit.ws, w |-> 1, k |-> 0] >>]
    /\ h' = h \o << [op |-> "nack_iter", it |-> 0], [op |-> "nack_iter", it |-> 1] >>
    /\ UNCHANGED << bld, ann, wr, img, cit, outs, done, cnt >>

Cap(i) == IF i = 1 THEN 17 * Len(nit.ws) + 3 ELSE MaxSecond

DoNext(i) ==
    /\ Len(h) >= 4 /\ cnt[i] < Cap(i)
    /\ LET it  == nit.its[i]
           s   == NackStep(it.ws, it.w, it.k)
           res == IF s.out = -1 THEN [t |-> "none"] ELSE [t |-> "some", v |-> s.out]
           ev  == [op |-> "nack_next", it |-> i - 1, res |-> res]
       IN  /\ Step(ev)
           /\ outs' = [outs EXCEPT ![i] = IF s.out = -1 THEN @ ELSE Append(@, s.out)]
           /\ done' = [done EXCEPT ![i] = @ \/ s.out = -1]
    /\ cnt' = [cnt EXCEPT ![i] = @ + 1]
    /\ h' = Append(h, [op |-> "nack_next", it |-> i - 1])

MCNext == DoOpen \/ DoIters \/ DoNext(1) \/ DoNext(2)
MCSpec == MCInit /\ [][MCNext]_mvars

-----------------------------------------------------------------------------
Input == IF h = <<>> THEN <<>> ELSE h[2].b
Law   == DecNack(Input)
IsPrefixOf(s, t) == Len(s) <= Len(t) /\ \A i \in 1..Len(s) : s[i] = t[i]

Prefix   == \A i \in 1..2 : IsPrefixOf(outs[i], Law)
Complete == \A i \in 1..2 : done[i] => outs[i] = Law
BoundedK == \A i \in 1..Len(nit.its) : nit.its[i].k \in 0..17 /\ nit.its[i].w \in 1..(Len(nit.ws) + 1)
MeasureOf(it) == 18 * (Len(it.ws) + 1 - it.w) - it.k
MeasureNonNeg == \A i \in 1..Len(nit.its) : MeasureOf(nit.its[i]) >= 0
\* every step that yields an entry strictly decreases the measure; a step that yields None never increases it
Measure == [][\A i \in 1..2 : (Len(nit.its) = 2 /\ Len(nit'.its) = 2 /\ cnt'[i] = cnt[i] + 1) =>
                   IF Len(outs'[i]) > Len(outs[i]) THEN MeasureOf(nit'.its[i]) < MeasureOf(nit.its[i])
                   ELSE MeasureOf(nit'.its[i]) <= MeasureOf(nit.its[i])]_mvars
Fused == [][\A i \in 1..2 : (done[i] /\ cnt'[i] = cnt[i] + 1) => outs'[i] = outs[i]]_mvars
\* the number of entries is bounded by the input length: 17 per complete word
Bounded == \A i \in 1..2 : Len(outs[i]) <= 17 * (Len(Input) \div 4)

Done == Len(h) >= 4 /\ cnt[1] = Cap(1) /\ cnt[2] = Cap(2)
Emit == Done => PrintT(<< "REPLAY", ToJson(h) >>)
=============================================================================
