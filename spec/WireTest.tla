------------------------------ MODULE WireTest ------------------------------
(* Unit vectors for the wire model: the byte-exact expectations that the    *)
(* repository's own tests assert, re-stated against the spec's encoders and *)
(* decoders.  Run by bin/check --selftest (ASSUMEs are evaluated by TLC).   *)
EXTENDS Wire

S(str) == str   \* placeholder: byte strings are written out explicitly below

AppName == [kind |-> "app", ssrc |-> <<37250, 29540>>, padding |-> 0, subtype |-> 0,
            name |-> <<110, 97, 109, 101>>, data |-> <<>>]
ASSUME Image(AppName) = <<128, 204, 0, 2, 145, 130, 115, 100, 110, 97, 109, 101>>

Rpsi1 == [kind |-> "pfb", sender |-> <<39030, 21554>>, media |-> <<4350, 56506>>, padding |-> 0,
          fci |-> [f |-> "rpsi", pt |-> 96, data |-> <<240>>, bits |-> 4]]
ASSUME Image(Rpsi1) = <<131, 206, 0, 3, 152, 118, 84, 50, 16, 254, 220, 186, 12, 96, 240, 0>>

Sli1 == [kind |-> "pfb", sender |-> <<39030, 21554>>, media |-> <<4350, 56506>>, padding |-> 0,
         fci |-> [f |-> "sli", list |-> << <<4660, 2439, 37>> >>]]
ASSUME Image(Sli1) = <<130, 206, 0, 3, 152, 118, 84, 50, 16, 254, 220, 186, 145, 162, 97, 229>>
ASSUME DecSli(<<145, 162, 97, 229>>) = << <<4660, 2439, 37>> >>

Nack(n) == [kind |-> "tfb", sender |-> <<39030, 21554>>, media |-> <<4350, 56506>>, padding |-> 0,
            fci |-> [f |-> "nack", set |-> {4660 + i : i \in 0..(n - 1)}]]
ASSUME SubSeq(Image(Nack(2)), 13, 16) = <<18, 52, 0, 1>>
ASSUME SubSeq(Image(Nack(16)), 13, 16) = <<18, 52, 127, 255>>
ASSUME SubSeq(Image(Nack(17)), 13, 16) = <<18, 52, 255, 255>>
ASSUME SubSeq(Image(Nack(18)), 13, 20) = <<18, 52, 255, 255, 18, 69, 0, 0>>
ASSUME DecNack(<<18, 52, 255, 255, 18, 69, 0, 0>>) = [i \in 1..18 |-> 4660 + i - 1]
ASSUME DecNack(<<255, 255, 128, 1>>) = <<65535, 0, 15>>
ASSUME IsNackFci(<<0, 0, 0, 16, 0, 20, 0, 1>>, {0, 5, 20, 21})        \* greedy
ASSUME IsNackFci(<<0, 0, 0, 0, 0, 5, 192, 0>>, {0, 5, 20, 21})         \* another minimal ascending encoding
ASSUME ~IsNackFci(<<0, 0, 0, 0, 0, 5, 0, 0, 0, 20, 0, 1>>, {0, 5, 20, 21})   \* not minimal
ASSUME ~IsNackFci(<<255, 250, 0, 128>>, {65530, 2})                     \* wraps: not ascending
\* the one-pass form of the greedy cover is the recursive one (every subset of a window-sized universe, and spread sets)
ASSUME \A set \in SUBSET {0, 1, 2, 15, 16, 17, 18, 33, 34, 35, 65535} : NackWords(set) = NackWordsRec(set)
ASSUME \A k \in 1..40 : \A st \in {1, 2, 7, 16, 17, 18} :
          LET set == { (100 + st * i) : i \in 0..k } IN NackWords(set) = NackWordsRec(set)

Sdes1 == [kind |-> "sdes", padding |-> 0, chunks |-> <<
   [ssrc |-> <<4660, 22136>>, items |-> <<
      [type |-> 1, value |-> <<99, 110, 97, 109, 101>>, prefix |-> <<>>],
      [type |-> 2, value |-> <<70, 114, 97, 110, 195, 167, 111, 105, 115>>, prefix |-> <<>>],
      [type |-> 8, value |-> <<112, 114, 105, 118, 45, 118, 97, 108, 117, 101>>,
                   prefix |-> <<112, 114, 105, 118, 45, 112, 114, 101, 102, 105, 120>>] >>] >>]
Sdes1Img == <<129, 202, 0, 12, 18, 52, 86, 120, 1, 5, 99, 110, 97, 109, 101, 2, 9, 70, 114, 97, 110, 195, 167,
   111, 105, 115, 8, 22, 11, 112, 114, 105, 118, 45, 112, 114, 101, 102, 105, 120, 112, 114, 105, 118, 45,
   118, 97, 108, 117, 101, 0, 0>>
ASSUME Image(Sdes1) = Sdes1Img
ASSUME LET v == SdesVerdict(Sdes1Img) IN
         /\ v.v = "must" /\ Len(v.chunks) = 1 /\ v.chunks[1].ssrc = <<4660, 22136>> /\ v.chunks[1].length = 48
         /\ [i \in 1..3 |-> v.chunks[1].items[i].type] = <<1, 2, 8>>
         /\ v.chunks[1].items[3].plen = 11 /\ v.chunks[1].items[3].vn = 10
         /\ Slice(Sdes1Img, v.chunks[1].items[3].vo, 10) = <<112, 114, 105, 118, 45, 118, 97, 108, 117, 101>>
         /\ ConsistentTokens(Sdes1Img, v.chunks)

\* BYE with 2 sources and reason "Shutdown" (repository vector), and a padded variant
Bye1 == [kind |-> "bye", padding |-> 0, sources |-> << <<4660, 22136>>, <<13398, 30874>> >>,
         reason |-> <<83, 104, 117, 116, 100, 111, 119, 110>>]
ASSUME Image(Bye1) = <<130, 203, 0, 5, 18, 52, 86, 120, 52, 86, 120, 154, 8, 83, 104, 117, 116, 100, 111, 119, 110, 0, 0, 0>>
ASSUME Image([Bye1 EXCEPT !.padding = 4, !.reason = <<97, 98>>, !.sources = << <<0, 1>> >>]) =
          <<161, 203, 0, 3, 0, 0, 0, 1, 2, 97, 98, 0, 0, 0, 0, 4>>
ASSUME Pad(<<128, 203, 0, 0>>, 8) = <<160, 203, 0, 2, 0, 0, 0, 0, 0, 0, 0, 8>>

\* RR with a report block
RR1 == [kind |-> "rr", ssrc |-> <<37250, 29540>>, padding |-> 0, blocks |-> <<
        [ssrc |-> <<1, 2>>, fraction |-> 255, cumulative |-> <<255, 65535>>, ext_seq |-> <<3, 4>>,
         jitter |-> <<5, 6>>, lsr |-> <<7, 8>>, dlsr |-> <<9, 10>>] >>]
ASSUME Image(RR1) = <<129, 201, 0, 7, 145, 130, 115, 100, 0, 1, 0, 2, 255, 255, 255, 255, 0, 3, 0, 4, 0, 5, 0, 6, 0, 7, 0, 8, 0, 9, 0, 10>>
ASSUME DecRB(SubSeq(Image(RR1), 9, 32)) = RR1.blocks[1]

ASSUME Tiling(<<128, 201, 0, 1, 145, 130, 115, 100, 128, 203, 0, 0>>) = [ok |-> TRUE, tiles |-> << <<0, 8>>, <<8, 4>> >>]
ASSUME ~Tiling(<<128, 201, 0, 2, 145, 130, 115, 100, 128, 203, 0, 0, 0>>).ok
ASSUME Accepts(Bye1) /\ ~Accepts([Bye1 EXCEPT !.padding = 5])
ASSUME WriteErrAllowed([Bye1 EXCEPT !.padding = 5], Err("InvalidPadding", <<5>>))
ASSUME ~WriteErrAllowed([Bye1 EXCEPT !.padding = 5], Err("InvalidPadding", <<4>>))
ASSUME BitsOf(<<240, 255>>, 8) = BitsOf(<<240>>, 0)
ASSUME IsUtf8(<<>>) /\ IsUtf8(<<97, 195, 169>>) /\ IsUtf8(<<226, 130, 172>>) /\ IsUtf8(<<240, 159, 152, 128>>) /\ IsUtf8(<<224, 160, 128>>)
ASSUME IsUtf8(<<237, 159, 191>>) /\ IsUtf8(<<244, 143, 191, 191>>) /\ IsUtf8(<<0, 127>>)
ASSUME ~IsUtf8(<<192, 128>>) /\ ~IsUtf8(<<193, 191>>) /\ ~IsUtf8(<<237, 160, 128>>) /\ ~IsUtf8(<<244, 144, 128, 128>>) /\ ~IsUtf8(<<245, 128, 128, 128>>)
ASSUME ~IsUtf8(<<128>>) /\ ~IsUtf8(<<195>>) /\ ~IsUtf8(<<224, 159, 128>>) /\ ~IsUtf8(<<240, 143, 128, 128>>) /\ ~IsUtf8(<<226, 130>>) /\ ~IsUtf8(<<97, 255>>)
ASSUME UntilZero(<<97, 0, 98, 0>>) = <<97>> /\ UntilZero(<<0, 0, 0, 0>>) = <<>> /\ UntilZero(<<97, 98, 99, 100>>) = <<97, 98, 99, 100>>
\* the operators restated in Lemmas.tla (proved for all naturals with TLAPS) are the ones used by the wire model
L == INSTANCE Lemmas
ASSUME \A n \in 0..3000 : L!LPad4(n) = Pad4(n)
ASSUME \A t \in {4 * i : i \in 1..300} \cup {65536, 262140, 262144} :
          LET h == Header(FALSE, 0, 200, t) IN L!LenField(t) % 65536 = U16At(h, 3) /\ (t <= 262144 => L!HdrLen(U16At(h, 3)) = t)
ASSUME \A i \in {0} \cup 2..257 : L!ChunkLen(i) = Len(EncChunk([ssrc |-> <<0, 1>>, items |-> IF i = 0 THEN <<>> ELSE << [type |-> 1, prefix |-> <<>>, value |-> Zeros(i - 2)] >>]))
ASSUME \A d \in 0..40 : L!RpsiFill(d) = Len(EncRpsi([f |-> "rpsi", pt |-> 0, data |-> Zeros(d), bits |-> 0])) - (2 + d)
ASSUME PrintT("WireTest: all vectors hold")

VARIABLE x
Init == x = 0
Next == UNCHANGED x
=============================================================================
