----------------------------- MODULE MC_Compound -----------------------------
(***************************************************************************)
(* Bounded model of compound parsing and iteration (C11, also C01/C18).    *)
(*                                                                         *)
(* Behaviours: Compound::parse on every datagram assembled from up to      *)
(* MaxTiles tile templates plus a tail, followed by every number of        *)
(* next() calls up to tiles + Extra.  The step relation is the one the     *)
(* trace validator uses (Api!Step for parse, Api!CNextCtl / CitAfterNext    *)
(* for next) with the outcome of each yielded item taken from the WIRE     *)
(* oracle (TileVerdict); all results the relation allows are explored.     *)
(* The properties checked here are GLOBAL (over the whole history) and     *)
(* stated independently of the step relation:                              *)
(*   AcceptIffPartition  accepted <=> non-empty and the length chain       *)
(*                       partitions the datagram (set-based definition)    *)
(*   IterBounded         never more items than tiles                       *)
(*   IterFaithful        item i is the generic parser's verdict on tile i, *)
(*                       and every item before the last is a success       *)
(*   StopsAfterError / IterComplete / Fused                                *)
(* Every complete behaviour is printed as a script (REPLAY ...) which the   *)
(* orchestrator runs on the real crate and validates with Trace.tla.       *)
(***************************************************************************)
EXTENDS Api, Json

CONSTANTS MaxTiles, Extra

VARIABLES h, ys, nn, ended, last
mvars == << vars, h, ys, nn, ended, last >>

T == << << 128, 203, 0, 0 >>,                                  \* BYE, no sources
        << 129, 203, 0, 1, 1, 2, 3, 4 >>,                      \* BYE, one source
        << 128, 201, 0, 1, 9, 9, 9, 9 >>,                      \* RR, no blocks
        << 129, 201, 0, 1, 9, 9, 9, 9 >>,                      \* RR, count 1 without a block: typed parser fails
        << 64, 201, 0, 1, 9, 9, 9, 9 >>,                       \* version 1
        << 128, 77, 0, 1, 5, 6, 7, 8 >>,                       \* unknown type
        << 129, 202, 0, 2, 0, 0, 0, 1, 1, 9, 65, 66 >>,        \* SDES with an overrunning item
        << 128, 204, 0, 1, 1, 2, 3, 4 >>,                      \* APP shorter than its minimum
        << 160, 203, 0, 1, 0, 0, 0, 0 >>,                      \* BYE with padding bit and zero count byte
        << 128, 200, 0, 0 >>,                                  \* SR header only
        << 129, 202, 0, 2, 0, 0, 0, 1, 1, 1, 65, 0 >>,         \* SDES, well-formed
        << 129, 205, 0, 3, 0, 0, 0, 1, 0, 0, 0, 2, 0, 5, 0, 1 >>,    \* generic NACK
        << 160, 203, 0, 1, 0, 0, 0, 4 >>,                      \* BYE: header and 4 bytes of padding only
        << 160, 77, 0, 2, 0, 0, 0, 0, 0, 0, 0, 8 >>,           \* unknown type: header and 8 bytes of padding only
        << 129, 202, 0, 2, 0, 0, 0, 1, 8, 1, 5, 0 >>,          \* SDES, PRIV item whose prefix overruns the item
        << 129, 202, 0, 2, 0, 0, 0, 1, 8, 0, 0, 0 >>,          \* SDES, PRIV item without a prefix length
        << 64, 77, 0, 1, 5, 6, 7, 8 >>,                         \* unknown type, version 1
        << 192, 242, 0, 0 >> >>                                  \* unknown type, version 3, header only

Tails == << <<>>, << 7 >>, << 1, 2, 3 >>, << 128, 203, 0, 2 >>, << 128, 203, 0, 0, 0 >> >>

TileSeqs == UNION { [1..n -> 1..Len(T)] : n \in 0..MaxTiles }
Datagram(sq, tl) == Flat([i \in 1..Len(sq) |-> T[sq[i]]]) \o Tails[tl]

\* the generic parser's verdict on one tile, from the wire oracle alone
TileVerdict(t) ==
    LET var == Variant(PType(t))
    IN  IF var = "unknown" THEN (IF FramedUnknown(t) THEN "ok" ELSE "err")
        ELSE IF ~CanAccept(var, t) \/ MustReject(var, t) THEN "err"
        ELSE IF MustAccept(var, t) THEN "ok" ELSE "either"

\* a reference result for Compound::parse (any truthful error will do for a rejected datagram)
RefCParse(b) ==
    IF b # <<>> /\ Tiling(b).ok THEN [t |-> "ok"]
    ELSE IF Len(b) < 4 THEN [t |-> "err", e |-> "Truncated", f |-> << 4, Len(b) >>]
    ELSE [t |-> "err", e |-> "Truncated", f |-> << Len(b) + 4, Len(b) >>]

MCInit ==
    /\ InitState
    /\ h = <<>> /\ ys = <<>> /\ nn = 0 /\ ended = FALSE /\ last = "-"

DoParse ==
    /\ h = <<>>
    /\ \E sq \in TileSeqs, tl \in 1..Len(Tails) :
          LET b  == Datagram(sq, tl)
              ev == [op |-> "cparse", b |-> b, res |-> RefCParse(b)]
          IN  /\ Step(ev)
              /\ h' = << [op |-> "reset", sid |-> "MC_Compound"], [op |-> "cparse", b |-> b] >>
    /\ UNCHANGED << ys, nn, ended, last >>

NextCandidates(c) ==
    { [t |-> "none"] } \cup
    { [t |-> "some", item |-> [t |-> o]] :
        o \in IF ~c.over /\ c.pos <= Len(c.tiles)
              THEN LET v == TileVerdict(TileBytes(c)) IN IF v = "either" THEN {"ok", "err"} ELSE {v}
              ELSE {"ok", "err"} }

DoNext ==
    /\ h # <<>> /\ cit.valid /\ nn < Len(cit.tiles) + Extra
    /\ \E res \in NextCandidates(cit) :
          /\ CNextCtl(cit, res)
          /\ cit' = CitAfterNext(cit, res)
          /\ ys' = IF res.t = "some" THEN Append(ys, res.item.t) ELSE ys
          /\ ended' = (ended \/ res.t = "none")
          /\ last' = res.t
    /\ h' = Append(h, IF ~cit.over /\ cit.pos <= Len(cit.tiles)
                      THEN [op |-> "cnext", tile |-> cit.tiles[cit.pos]] ELSE [op |-> "cnext"])
    /\ nn' = nn + 1
    /\ UNCHANGED << bld, ann, wr, img, nit >>

MCNext == DoParse \/ DoNext
MCSpec == MCInit /\ [][MCNext]_mvars

-----------------------------------------------------------------------------
Input == IF h = <<>> THEN <<>> ELSE h[2].b

\* independent, set-based statement of "the chain of length fields partitions b into whole packets"
Mult4UpTo(n) == { 4 * i : i \in 0..(n \div 4) }
ChainPartitions(b) ==
    \E S \in SUBSET Mult4UpTo(Len(b)) :
       /\ 0 \in S /\ Len(b) \in S
       /\ \A o \in S : o < Len(b) =>
             /\ o + 4 <= Len(b)
             /\ LET n == 4 * (U16At(b, o + 3) + 1)
                IN  o + n \in S /\ \A x \in S : ~(o < x /\ x < o + n)

AcceptIffPartition ==
    (h # <<>> /\ Len(Input) <= 36) => (cit.valid <=> (Input # <<>> /\ ChainPartitions(Input)))

TilesOf == Tiling(Input).tiles
IterBounded  == cit.valid => (cit.yielded <= Len(TilesOf) /\ Len(ys) = cit.yielded /\ cit.yielded <= nn)
IterFaithful ==
    cit.valid => \A i \in 1..Len(ys) :
                    LET v == TileVerdict(Slice(Input, TilesOf[i][1], TilesOf[i][2]))
                    IN  /\ v = "either" \/ ys[i] = v
                        /\ i < Len(ys) => ys[i] = "ok"
StopsAfterError == (cit.valid /\ ys # <<>> /\ ys[Len(ys)] = "err") => cit.over
IterComplete == (cit.valid /\ ended) => (Len(ys) = Len(TilesOf) \/ (ys # <<>> /\ ys[Len(ys)] = "err"))
\* progress: as long as nothing failed and tiles remain, next() yields (no early end)
NoEarlyEnd == (cit.valid /\ ~ended) => Len(ys) = nn
Fused == [][ended => (ended' /\ last' = "none")]_mvars

Done == h # <<>> /\ (~cit.valid \/ nn = Len(cit.tiles) + Extra)
Emit == Done => PrintT(<< "REPLAY", ToJson(h) >>)
=============================================================================
