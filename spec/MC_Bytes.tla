------------------------------ MODULE MC_Bytes ------------------------------
(***************************************************************************)
(* Bounded byte-string domains for the parsers (C01, C08, C09, C10, C12,   *)
(* C15, C18, C19), enumerated completely by TLC.                            *)
(*                                                                         *)
(* Domain "frame": the header space crossed with real lengths - version,   *)
(*   padding bit, count, packet type, length field, actual length, last    *)
(*   byte - over boundary values, for every typed parser, Unknown, Packet   *)
(*   and the third-party family.                                            *)
(* Domain "sdes": EVERY body over a small alphabet up to a length bound     *)
(*   under a well-framed SDES header, with and without a padding trailer,   *)
(*   count field right and wrong.                                            *)
(* Domain "fci": feedback packets of every format number and both kinds     *)
(*   over FCI bodies from a small alphabet (gating, decode laws).           *)
(*                                                                         *)
(* On every string the three-valued oracle of Wire/Api is checked for       *)
(* CONSISTENCY (these are theorems about the specification, independent of  *)
(* any implementation):                                                      *)
(*   MustImpliesCan     what must be accepted may be accepted                *)
(*   MandatedIsReject   a mandated error is only mandated for strings no     *)
(*                      parser may accept, and it is itself truthful         *)
(*   NoContradiction    nothing is both must-accept and must-reject          *)
(*   TypedImpliesGeneric a string a typed parser may accept is well framed   *)
(*                      for the unknown parser too (C12 conversions)         *)
(*   SdesMustReencodes  a must-accept SDES body is exactly the encoding of   *)
(*                      its tokens (Enc o Dec = id on well-formed strings),  *)
(*                      and its tokens pass the "either"-class consistency   *)
(*   FciLaws            SLI / NACK / FIR word decoders invert the encoders   *)
(* Every string is printed as a script for replay on the crate.             *)
(***************************************************************************)
EXTENDS Api, Json

CONSTANTS Domain,
          Versions, PBits, Counts, Types, LenFields, Lens, LastBytes,      \* frame
          SdesAlpha, SdesLens, SdesPads,                                   \* sdes
          FciAlpha, FciWords, Formats                                      \* fci

VARIABLES s          \* the current string with its script
mvars == << vars, s >>

Filler(i) == (i * 37 + 11) % 251

FrameString(v, p, cnt, pt, lf, n, lastb) ==
    LET hd   == << v * 64 + p * 32 + cnt, pt, lf \div 256, lf % 256 >>
        full == hd \o [i \in 1..(Max2(n, 4) - 4) |-> Filler(i)]
        cut  == SubSeq(full, 1, n)
    IN  IF p = 1 /\ n >= 5 THEN [cut EXCEPT ![n] = lastb] ELSE cut

\* SDES: header (count cnt, exact length field) + body + optional trailer
SdesString(body, pad, cnt) == Packet(pad, cnt, PT_SDES, body)
ChunkCount(body, pad) == Len(SdesChunksWalk(Packet(pad, 0, PT_SDES, body), 4, 4 + Len(body), <<>>).chunks)

FciString(kind, fmt, body, pad) == Packet(pad, fmt, PTOf(kind), << 0, 1, 2, 3, 255, 254, 253, 252 >> \o body)

\* The domain is enumerated in two steps (a coarse part, then the rest) so that TLC's workers share the work.
Parts ==
    CASE Domain = "frame" -> { << v, p, cnt, pt >> : v \in Versions, p \in PBits, cnt \in Counts, pt \in Types }
      [] Domain = "sdes"  -> UNION { { << n, pad, wrong, pre >> : pad \in SdesPads, wrong \in {0, 1}, pre \in [1..Min2(n, 3) -> SdesAlpha] }
                                     : n \in SdesLens }
      [] Domain = "fci"   -> { << k, f, pad, n >> : k \in {"tfb", "pfb"}, f \in Formats, pad \in {0, 4}, n \in FciWords }

Completions(part) ==
    CASE Domain = "frame" -> { FrameString(part[1], part[2], part[3], part[4], lf, n, lb) : lf \in LenFields, n \in Lens, lb \in LastBytes }
      [] Domain = "sdes"  ->
            LET n   == part[1]
                pre == part[4]
            IN  { LET body == pre \o rest
                      cc   == ChunkCount(body, part[2])
                  IN  SdesString(body, part[2], IF part[3] = 1 THEN (cc + 1) % 32 ELSE cc)
                  : rest \in [1..(n - Len(pre)) -> SdesAlpha] }
      [] Domain = "fci"   -> { FciString(part[1], part[2], b, part[3]) : b \in [1..(4 * part[4]) -> FciAlpha] }

ScriptFor(b) ==
    CASE Domain = "frame" ->
            << [op |-> "reset", sid |-> "MC_Bytes"], [op |-> "parse_all", b |-> b] >>
            \* every third-party definition declaring this packet type, one after the other on the same string
            \o (IF Len(b) >= 2
                THEN LET fs == SetToSortSeq({ f \in 1..Len(Family) : Family[f][1] = b[2] }, <)
                     IN  [i \in 1..Len(fs) |-> [op |-> "parse", kind |-> "custom", fam |-> fs[i] - 1, b |-> b]]
                ELSE <<>>)
      [] Domain = "sdes" -> << [op |-> "reset", sid |-> "MC_Bytes"], [op |-> "parse", kind |-> "sdes", b |-> b] >>
      [] Domain = "fci"  -> << [op |-> "reset", sid |-> "MC_Bytes"], [op |-> "parse", kind |-> Variant(b[2]), b |-> b] >>

MCInit == InitState /\ s = [stage |-> 0]
Choose1 == s.stage = 0 /\ \E part \in Parts : s' = [stage |-> 1, part |-> part]
Choose2 == s.stage = 1 /\ \E b \in Completions(s.part) : s' = [stage |-> 2, b |-> b]
MCNext == (Choose1 \/ Choose2) /\ UNCHANGED vars
MCSpec == MCInit /\ [][MCNext]_mvars

-----------------------------------------------------------------------------
Full == s.stage = 2
B == s.b
ParserKinds == PacketKinds \cup {"unknown"}

MustImpliesCan == Full => \A k \in ParserKinds : MustAccept(k, B) => CanAccept(k, B)

MandatedIsReject ==
    Full => \A k \in ParserKinds :
       LET m == MandatedErr(MinLen(k), PTOf(k), B)
       IN  m # {} => /\ ~CanAccept(k, B)
                     /\ \A e \in m : Truthful(PTOf(k), B, e)

NoContradiction == Full => \A k \in ParserKinds : ~(MustAccept(k, B) /\ MustReject(k, B))

TypedImpliesGeneric == Full => \A k \in PacketKinds : CanAccept(k, B) => (FramedUnknown(B) /\ Variant(PType(B)) = k)

\* the generic parser's minimum is the header: shorter strings have exactly one allowed outcome
ShortIsTruncated == (Full /\ Len(B) < 4) => \A k \in ParserKinds : MandatedErr(MinLen(k), PTOf(k), B) = { Err("Truncated", << MinLen(k), Len(B) >>) }

\* C13 on the decoders: adding padding to an unpadded acceptable string keeps it acceptable and keeps the content
PadTransparent ==
    (Full /\ Domain = "frame") => \A k \in {"sr", "rr", "app", "bye"} :
       (MustAccept(k, B) /\ ~PBit(B)) =>
           \A n \in {4, 252} :
              LET pb == Pad(B, n)
              IN  /\ MustAccept(k, pb)
                  /\ [DecCfg(k, pb) EXCEPT !.padding = 0] = DecCfg(k, B)
                  /\ DecCfg(k, pb).padding = n

\* ---- SDES
TokCfg(tok, b) ==   \* the configuration a must-accept token list denotes
    [ssrc |-> tok.ssrc,
     items |-> [j \in 1..Len(tok.items) |->
                  LET t == tok.items[j]
                  IN  [type |-> t.type, value |-> Slice(b, t.vo, t.vn),
                       prefix |-> IF t.type = 8 THEN Slice(b, t.po, t.pn) ELSE <<>>]]]
SdesMustReencodes ==
    (Full /\ Domain = "sdes" /\ Framed(4, PT_SDES, B)) =>
        LET vd == SdesVerdict(B)
        IN  /\ vd.v \in {"must", "reject", "either"}
            /\ vd.v = "must" =>
                  /\ ConsistentTokens(B, vd.chunks)
                  /\ Image([kind |-> "sdes", padding |-> PadCount(B),
                            chunks |-> [i \in 1..Len(vd.chunks) |-> TokCfg(vd.chunks[i], B)]]) = B
                  /\ \A i \in 1..Len(vd.chunks) : vd.chunks[i].length = Len(EncChunk(TokCfg(vd.chunks[i], B)))
            /\ vd.v = "reject" => ~MustAccept("sdes", B)

\* ---- FCI: word-level encoders and decoders are mutually inverse
FciLaws ==
    (Full /\ Domain = "fci" /\ Len(B) >= 12 /\ RegularPad(B, 12)) =>
        LET region == SubSeq(B, 13, Len(B) - PadCount(B))
        IN  /\ EncSli(DecSli(region)) = region
            /\ EncFir(DecFir(region)) = [i \in 1..Len(region) |-> IF (i - 1) % 8 \in 5..7 THEN 0 ELSE region[i]]
                  \/ Len(region) % 8 # 0
            /\ LET d == DecNack(region) IN Len(d) <= 17 * (Len(region) \div 4)
            /\ (StrictlyAscending(DecNack(region)) /\ region # <<>>) =>
                  MinNackWords(ToSet(DecNack(region))) <= Len(region) \div 4      \* greedy never needs more words

Emit == Full => PrintT(<< "REPLAY", ToJson(ScriptFor(B)) >>)
=============================================================================
