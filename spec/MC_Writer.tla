------------------------------ MODULE MC_Writer ------------------------------
(***************************************************************************)
(* Bounded model of the builders and of the writer protocol                *)
(* (C02-C07, C13, C14, C16, C17, C19, C20).                                *)
(*                                                                         *)
(* Behaviours: every history of builder calls over a boundary alphabet     *)
(* (two or three values per setter, valid and invalid ones, owned and      *)
(* borrowed variants, every short add-history of the FCI builders and of   *)
(* SDES items), up to depth D after the constructor, optionally followed   *)
(* by the PacketBuilder / one-member-compound wrappers.  The step relation *)
(* is Api!Step on "call" / "wrap" events (the fold of C20).                *)
(*                                                                         *)
(* Checked on every reachable configuration, independently of the step     *)
(* relation:                                                                *)
(*   SizeMult4      accepted whole packets have a size that is 0 mod 4      *)
(*   RoundTrip      the spec's decoders invert the spec's encoders:         *)
(*                  MustAccept(Image(c)) and Dec(Image(c)) = c  (C02-C05)   *)
(*   PadLaw         Image(c with padding p) = Pad(Image(c without), p) (C13)*)
(*   Concat         a compound image tiles into its leaves' images (C14)    *)
(*   Implementable  the reference writer (size := Len(Image), bytes :=     *)
(*                  Image) satisfies CalcSizeConf / WriteConf with ALL      *)
(*                  properties selected, for buffers shorter, equal and     *)
(*                  longer than the size and two prefills: the writer       *)
(*                  relation of C06/C07/C16/C17 is consistent               *)
(*   Laws           independent setters commute and a repeated setter keeps *)
(*                  the last value (C20), on the fold itself                *)
(*   RejectedUnrepresentable  every rule violation really is one: a         *)
(*                  rejected configuration names a rule whose error is      *)
(*                  allowed, an accepted one names none (C16)               *)
(* Every reachable history is printed as a script for replay on the crate. *)
(***************************************************************************)
EXTENDS Api, Json

CONSTANTS Kinds, D, FamOn, WrapOn, PadOps, Observe

VARIABLES h, kind, wraps
mvars == << vars, h, kind, wraps >>

A32 == << 0, 1 >>
B32 == << 65535, 65535 >>
C32 == << 0, 65280 >>          \* 0x0000ff00: leading zero bytes

Pads == { [c |-> "padding", v |-> 0], [c |-> "padding", v |-> 4], [c |-> "padding", v |-> 6] }

RbGood == << [c |-> "new", ssrc |-> B32], [c |-> "fraction", v |-> 255], [c |-> "cumulative", v |-> << 255, 65535 >>],
             [c |-> "ext_seq", v |-> C32], [c |-> "jitter", v |-> A32], [c |-> "lsr", v |-> B32], [c |-> "dlsr", v |-> C32] >>
RbPlain == << [c |-> "new", ssrc |-> A32] >>
RbBad  == << [c |-> "new", ssrc |-> A32], [c |-> "cumulative", v |-> << 256, 0 >>] >>
RbOver == << [c |-> "new", ssrc |-> A32], [c |-> "cumulative", v |-> << 1, 0 >>], [c |-> "cumulative", v |-> << 0, 1 >>],
             [c |-> "fraction", v |-> 1] >>

\* SDES item call histories: new(type, value) then every sequence of up to 3 of {prefix p, prefix q, into_owned}
ItemTail == { [c |-> "prefix", v |-> << 112 >>, mode |-> "borrowed"], [c |-> "prefix", v |-> << 113, 114 >>, mode |-> "cow_owned"],
              [c |-> "into_owned"] }
ItemTails == UNION { [1..n -> ItemTail] : n \in 0..3 }
ItemNews == { [c |-> "new", type |-> 8, value |-> << 118 >>, mode |-> "borrowed"],
              [c |-> "new", type |-> 1, value |-> << 97, 98 >>, mode |-> "cow_owned"] }
ItemHists == { << n >> \o t : n \in ItemNews, t \in ItemTails }
Chunk(ssrc, adds) == [ssrc |-> ssrc, via |-> "builder", adds |-> adds]
ChunkBase == { Chunk(A32, <<>>),
               Chunk(C32, << [owned |-> FALSE, item |-> << [c |-> "new", type |-> 1, value |-> << 97 >>, mode |-> "borrowed"] >>] >>),
               Chunk(<< 0, 0 >>, << [owned |-> TRUE, item |-> << [c |-> "new", type |-> 2, value |-> <<>>, mode |-> "borrowed"] >>],
                                    [owned |-> FALSE, item |-> << [c |-> "new", type |-> 8, value |-> << 118, 119 >>, mode |-> "borrowed"],
                                                                  [c |-> "prefix", v |-> << 112 >>, mode |-> "borrowed"] >>] >>),
               Chunk(B32, << [owned |-> FALSE, item |-> << [c |-> "new", type |-> 255, value |-> << 97, 98, 99 >>, mode |-> "borrowed"] >>] >>) }
ChunkFam == { Chunk(A32, << [owned |-> o, item |-> ih] >>) : o \in BOOLEAN, ih \in ItemHists }

\* FCI builder histories
NackHists == UNION { [1..n -> { 0, 1, 17, 65535 }] : n \in 0..3 }
FirHists  == UNION { [1..n -> { << A32, 1 >>, << A32, 2 >>, << C32, 3 >> }] : n \in 0..3 }
SliHists  == UNION { [1..n -> { << 0, 0, 0 >>, << 8191, 8191, 63 >>, << 1, 2, 3 >> }] : n \in 0..2 }
RpsiCall  == { [c |-> "pt", v |-> 127], [c |-> "pt", v |-> 128],
               [c |-> "data", v |-> <<>>, bits |-> 0, mode |-> "borrowed"],
               [c |-> "data", v |-> << 255 >>, bits |-> 8, mode |-> "owned"],
               [c |-> "data", v |-> << 255, 170 >>, bits |-> 3, mode |-> "cow_owned"],
               [c |-> "data", v |-> << 1, 2, 3 >>, bits |-> 9, mode |-> "borrowed"] }
RpsiHists == UNION { [1..n -> RpsiCall] : n \in 0..2 }
Probes(a) == IF Observe THEN [i \in 1..Len(a) |-> i] ELSE <<>>      \* observe the nested builder after every add
\* kept as five separate, homogeneous sets (TLC cannot normalise a set mixing add-lists of different element types)
FciPart(i) ==
    CASE i = 1 -> { [f |-> "nack", adds |-> a, probes |-> Probes(a)] : a \in (IF FamOn THEN NackHists ELSE { << 5, 6, 22 >> }) }
      [] i = 2 -> { [f |-> "fir", adds |-> a, probes |-> Probes(a)] : a \in (IF FamOn THEN FirHists ELSE { << << A32, 7 >> >> }) }
      [] i = 3 -> { [f |-> "sli", adds |-> a, probes |-> Probes(a)] : a \in (IF FamOn THEN SliHists ELSE { << << 1, 2, 3 >> >> }) }
      [] i = 4 -> { [f |-> "rpsi", calls |-> a] :
                      a \in (IF FamOn THEN RpsiHists ELSE { << [c |-> "data", v |-> << 240 >>, bits |-> 4, mode |-> "borrowed"] >> }) }
      [] i = 5 -> { [f |-> "pli"] }

\* compound members
M(k, calls, pb) == [kind |-> k, calls |-> calls, pb |-> pb]
MemRR    == M("rr", << [c |-> "new", ssrc |-> A32] >>, FALSE)
MemBye4  == M("bye", << [c |-> "new"], [c |-> "add_source", v |-> B32], [c |-> "padding", v |-> 4] >>, TRUE)
MemByeBad == M("bye", << [c |-> "new"], [c |-> "padding", v |-> 6] >>, FALSE)
MemUnk   == M("unk", << [c |-> "new", type |-> 77, data |-> << 1, 2, 3, 4 >>, via |-> "builder"] >>, TRUE)
MemCust  == M("custom", << [c |-> "new", fam |-> 0, ssrc |-> C32], [c |-> "payload", v |-> << 9, 9, 9, 9 >>] >>, FALSE)
MemSdes4 == M("sdes", << [c |-> "new"], [c |-> "add_chunk", v |-> Chunk(C32, <<>>)], [c |-> "padding", v |-> 4] >>, FALSE)
MemByePad == M("bye", << [c |-> "new"], [c |-> "padding", v |-> 4] >>, FALSE)                 \* header + padding only
MemUnkPad == M("unk", << [c |-> "new", type |-> 78, data |-> <<>>, via |-> "new"], [c |-> "padding", v |-> 8] >>, FALSE)
MemTfb4 == M("tfb", << [c |-> "new", fci |-> [f |-> "nack", adds |-> << 7 >>], owned |-> FALSE], [c |-> "padding", v |-> 4] >>, FALSE)
MemPfb4 == M("pfb", << [c |-> "new", fci |-> [f |-> "pli"], owned |-> TRUE], [c |-> "padding", v |-> 4] >>, TRUE)
MemCustS0 == M("custom", << [c |-> "new", fam |-> 2, ssrc |-> A32, some0 |-> TRUE] >>, FALSE)     \* reports no padding as Some(0)
MemCust4 == M("custom", << [c |-> "new", fam |-> 1, ssrc |-> A32], [c |-> "padding", v |-> 4] >>, FALSE)
Nest(ms) == M("compound", << [c |-> "new"] >> \o [i \in 1..Len(ms) |-> [c |-> "add_packet", v |-> ms[i]]], FALSE)
Members  == { MemRR, MemBye4, MemByeBad, MemUnk, MemCust, MemSdes4, MemByePad, MemUnkPad, MemTfb4, MemPfb4, MemCust4, MemCustS0, Nest(<<>>), Nest(<< MemRR >>), Nest(<< MemRR, MemBye4 >>) }

NewsParts(k) == IF k \in {"tfb", "pfb"} THEN 5 ELSE 1
News(k, i) ==
    CASE k = "sr"   -> { [c |-> "new", ssrc |-> C32] }
      [] k = "rr"   -> { [c |-> "new", ssrc |-> B32] }
      [] k = "sdes" -> { [c |-> "new"] }
      [] k = "bye"  -> { [c |-> "new"] }
      [] k = "app"  -> { [c |-> "new", ssrc |-> C32, name |-> n] :
                           n \in { <<>>, << 97, 98 >>, << 97, 0, 99, 100 >>, << 97, 98, 99, 100, 101 >>, << 195, 169 >> } }
      [] k = "unk"  -> { [c |-> "new", type |-> t, data |-> d, via |-> v] :
                           t \in { 77, 200 }, d \in { <<>>, << 1, 2, 3, 4 >>, << 1, 2, 3 >> }, v \in { "builder", "new" } }
      [] k \in {"tfb", "pfb"} -> { [c |-> "new", fci |-> f, owned |-> o] : f \in FciPart(i), o \in BOOLEAN }
      [] k = "custom" -> { [c |-> "new", fam |-> f, ssrc |-> B32] : f \in 0..5 }
      [] k = "compound" -> { [c |-> "new"] }

Base(k) ==
    CASE k = "sr"   -> Pads \cup { [c |-> "ntp", v |-> << 1, 2, 3, 4 >>], [c |-> "ntp", v |-> << 65535, 0, 0, 255 >>],
                                   [c |-> "rtp", v |-> C32], [c |-> "pkts", v |-> B32], [c |-> "octets", v |-> A32],
                                   [c |-> "add_rb", v |-> RbGood], [c |-> "add_rb", v |-> RbOver], [c |-> "add_rb", v |-> RbBad] }
      [] k = "rr"   -> Pads \cup { [c |-> "add_rb", v |-> RbGood], [c |-> "add_rb", v |-> RbPlain], [c |-> "add_rb", v |-> RbBad] }
      [] k = "sdes" -> { [c |-> "padding", v |-> 0], [c |-> "padding", v |-> 8] } \cup { [c |-> "add_chunk", v |-> ch] : ch \in ChunkBase }
      [] k = "bye"  -> Pads \cup { [c |-> "add_source", v |-> A32], [c |-> "add_source", v |-> B32],
                                   [c |-> "reason", v |-> << 97, 98 >>, mode |-> "borrowed"],
                                   [c |-> "reason", v |-> << 97, 98, 99 >>, mode |-> "owned"],
                                   [c |-> "reason", v |-> << 97, 98, 99, 100, 101 >>, mode |-> "owned_string"],
                                   [c |-> "reason", v |-> <<>>, mode |-> "cow_owned"] }
      [] k = "app"  -> { [c |-> "padding", v |-> 0], [c |-> "padding", v |-> 4],
                         [c |-> "subtype", v |-> 0], [c |-> "subtype", v |-> 31], [c |-> "subtype", v |-> 32],
                         [c |-> "data", v |-> <<>>], [c |-> "data", v |-> << 1, 2, 3, 4 >>], [c |-> "data", v |-> << 1, 2, 3 >>] }
      [] k = "unk"  -> { [c |-> "padding", v |-> 0], [c |-> "padding", v |-> 4], [c |-> "padding", v |-> 5],
                         [c |-> "count", v |-> 0], [c |-> "count", v |-> 31], [c |-> "count", v |-> 32] }
      [] k \in {"tfb", "pfb"} -> { [c |-> "padding", v |-> 0], [c |-> "padding", v |-> 4], [c |-> "sender", v |-> C32],
                                   [c |-> "sender", v |-> B32], [c |-> "media", v |-> A32] }
      [] k = "custom" -> { [c |-> "padding", v |-> 0], [c |-> "padding", v |-> 4], [c |-> "count", v |-> 31], [c |-> "count", v |-> 32],
                           [c |-> "payload", v |-> <<>>], [c |-> "payload", v |-> << 1, 2, 3, 4, 5, 6, 7, 8 >>] }
      [] k = "compound" -> { [c |-> "add_packet", v |-> m] : m \in Members }

Fam(k) == IF FamOn /\ k = "sdes" THEN { [c |-> "add_chunk", v |-> ch] : ch \in ChunkFam } ELSE {}

Depth(k) == IF k \in {"tfb", "pfb"} /\ FamOn THEN Min2(D, 1) ELSE D

MCInit == InitState /\ h = <<>> /\ kind = "-" /\ wraps = <<>>

DoNew ==
    /\ h = <<>>
    /\ \E k \in Kinds : \E i \in 1..NewsParts(k) : \E c \in News(k, i) :
          /\ Step([op |-> "call", kind |-> k, c |-> c])
          /\ h' = << c >> /\ kind' = k
    /\ UNCHANGED wraps

DoCall ==
    /\ h # <<>> /\ wraps = <<>>
    /\ \E c \in (IF Len(h) <= Depth(kind) THEN Base(kind) ELSE {}) \cup (IF Len(h) = 1 THEN Fam(kind) ELSE {}) :
          /\ Step([op |-> "call", c |-> c])
          /\ h' = Append(h, c)
    /\ UNCHANGED << kind, wraps >>

DoWrap ==
    /\ h # <<>> /\ WrapOn
    /\ \E how \in {"pb", "compound1"} :
          /\ how = "pb" => (wraps = <<>> /\ kind \notin {"custom", "compound"})
          /\ how = "compound1" => "compound1" \notin ToSet(wraps)
          /\ Step([op |-> "wrap", how |-> how])
          /\ wraps' = Append(wraps, how)
    /\ UNCHANGED << h, kind >>

MCNext == DoNew \/ DoCall \/ DoWrap
MCSpec == MCInit /\ [][MCNext]_mvars

-----------------------------------------------------------------------------
Cfg == bld.cfg
HasCfg == h # <<>>

SizeMult4 == (HasCfg /\ Accepts(Cfg)) => Size(Cfg) % 4 = 0

\* ---- RoundTrip: the decoders of Wire/Api invert the encoders of Wire (C02-C05, C19)
CanonApp(c) == [c EXCEPT !.name = c.name \o Zeros(4 - Len(c.name))]
SdesTokensMatch(c, toks, b) ==
    /\ Len(toks) = Len(c.chunks)
    /\ \A i \in 1..Len(toks) :
          /\ toks[i].ssrc = c.chunks[i].ssrc
          /\ toks[i].length = Len(EncChunk(c.chunks[i]))
          /\ Len(toks[i].items) = Len(c.chunks[i].items)
          /\ \A j \in 1..Len(toks[i].items) :
                LET t  == toks[i].items[j]
                    it == c.chunks[i].items[j]
                IN  /\ t.type = it.type
                    /\ Slice(b, t.vo, t.vn) = it.value
                    /\ it.type = 8 => (Slice(b, t.po, t.pn) = it.prefix /\ t.plen = Len(it.prefix))
FciRoundTrip(c, b) ==
    LET region == SubSeq(b, 13, Len(b) - c.padding)
        f == c.fci
    IN  CASE f.f = "nack" -> DecNack(region) = SetToSortSeq(f.set, <) /\ IsNackFci(region, f.set)
          [] f.f = "fir"  -> DecFir(region) = f.map /\ IsFirFci(region, f.map)
          [] f.f = "sli"  -> DecSli(region) = f.list
          [] f.f = "rpsi" -> /\ Len(region) >= 2 /\ region[2] % 128 = f.pt /\ region[1] <= 8 * (Len(region) - 2)
                             /\ BitsOf(SubSeq(region, 3, Len(region)), region[1]) = BitsOf(f.data, f.bits)
          [] f.f = "pli"  -> region = <<>>

RECURSIVE RoundTripCfg(_)
RoundTripCfg(c) ==
    LET b == Image(c)
    IN  CASE c.kind \in {"sr", "rr", "bye"} -> MustAccept(c.kind, b) /\ DecCfg(c.kind, b) = c
          [] c.kind = "app"  -> MustAccept("app", b) /\ DecCfg("app", b) = CanonApp(c)
          [] c.kind = "sdes" -> /\ MustAccept("sdes", b)
                                /\ PadCount(b) = c.padding
                                /\ SdesTokensMatch(c, SdesVerdict(b).chunks, b)
                                /\ ConsistentTokens(b, SdesVerdict(b).chunks)
          [] c.kind \in {"tfb", "pfb"} ->
                /\ MustAccept(c.kind, b) /\ PadCount(b) = c.padding /\ Count(b) = FciFormat(c.fci)
                /\ U32At(b, 5) = c.sender /\ U32At(b, 9) = c.media
                /\ FciRoundTrip(c, b)
          [] c.kind = "unk"  -> FramedUnknown(b) /\ PType(b) = c.type /\ Count(b) = c.count /\ PadCount(b) = c.padding
                                /\ SubSeq(b, 5, Len(b) - c.padding) = c.data
          [] c.kind = "custom" -> /\ FramedUnknown(b) /\ PType(b) = c.pt /\ Count(b) = c.count
                                  /\ (Len(b) >= c.min <=> Framed(c.min, c.pt, b))
          [] c.kind = "compound" ->
                LET ls == Leaves(c)
                    tl == Tiling(b)
                IN  /\ tl.ok
                    /\ Len(tl.tiles) = Len(ls)
                    /\ \A i \in 1..Len(ls) :
                          /\ Slice(b, tl.tiles[i][1], tl.tiles[i][2]) = Image(ls[i])
                          /\ RoundTripCfg(ls[i])
                    /\ Size(c) = FoldLeft(LAMBDA x, y : x + y, 0, [i \in 1..Len(ls) |-> Size(ls[i])])
RoundTrip == (HasCfg /\ Accepts(Cfg)) => RoundTripCfg(Cfg)

\* ---- PadLaw (C13): requesting padding p is adding RFC 3550 padding to the unpadded image
PadLaw ==
    (HasCfg /\ Accepts(Cfg) /\ Cfg.kind # "compound" /\ Cfg.padding > 0) =>
        Image(Cfg) = Pad(Image([Cfg EXCEPT !.padding = 0]), Cfg.padding)

\* ---- the reference writer satisfies the writer relation with every property selected
AllProps == { "C01", "C06", "C07", "C14", "C16", "C17", "C19", "C20" }
RuleErr(r) == [t |-> "err", e |-> r.e, f |-> [i \in 1..Len(r.f) |-> IF r.f[i] = -1 THEN 0 ELSE r.f[i]]]
RefCalc(c) == IF Accepts(c) THEN [t |-> "ok", n |-> Size(c)] ELSE RuleErr(CHOOSE r \in LocalRules(c) : TRUE)
Blank(L, fill) == [i \in 1..L |-> Prefill(fill, i)]
RefWrite(c, L, fill) ==
    IF ~Accepts(c) THEN [res |-> RefCalc(c), out |-> Blank(L, fill)]
    ELSE IF L < Size(c) THEN [res |-> [t |-> "err", e |-> "OutputTooSmall", f |-> << Size(c) >>], out |-> Blank(L, fill)]
    ELSE [res |-> [t |-> "ok", n |-> Size(c)], out |-> Image(c) \o SubSeq(Blank(L, fill), Size(c) + 1, L)]
Implementable ==
    (HasCfg /\ PROPS = AllProps) =>
        LET a  == RefCalc(Cfg)
            n  == Size(Cfg)
        IN  /\ CalcSizeConf(Cfg, a)
            /\ GetPaddingConf(Cfg, [t |-> "ok", n |-> IF PaddingOf(Cfg) = 0 THEN -1 ELSE PaddingOf(Cfg)])
            /\ \A L \in { 0, Max2(0, n - 1), n, n + 3 } :
                  LET w0 == RefWrite(Cfg, L, 0)
                      w1 == RefWrite(Cfg, L, 1)
                  IN  /\ WriteConf(Cfg, a, None, L, 0, w0.res, w0.out)
                      /\ WriteConf(Cfg, a, [L |-> L, fill |-> 0, res |-> w0.res, out |-> w0.out, same |-> TRUE], L, 1, w1.res, w1.out)
\* ... and a writer that leaves one claimed byte undefined, writes one byte too far, or announces
\* another size does NOT (the relation is not permissive)
NotPermissive ==
    (HasCfg /\ PROPS = AllProps /\ Accepts(Cfg) /\ Size(Cfg) > 0) =>
        LET a  == RefCalc(Cfg)
            n  == Size(Cfg)
            w0 == RefWrite(Cfg, n + 3, 0)
            w1 == RefWrite(Cfg, n + 3, 1)
            p0 == [L |-> n + 3, fill |-> 0, res |-> w0.res, out |-> w0.out, same |-> TRUE]
        IN  /\ ~WriteConf(Cfg, a, p0, n + 3, 1, w1.res, [w1.out EXCEPT ![n] = Prefill(1, n)])      \* last byte left at prefill
            /\ ~WriteConf(Cfg, a, None, n + 3, 0, w0.res, [w0.out EXCEPT ![n + 1] = 0])             \* one byte too far
            /\ ~WriteConf(Cfg, a, None, n + 3, 0, [t |-> "ok", n |-> n + 1], w0.out)                \* returns another size
            /\ ~CalcSizeConf(Cfg, [t |-> "ok", n |-> n + 4])
            /\ ~CalcSizeConf(Cfg, [t |-> "err", e |-> "InvalidPadding", f |-> << 0 >>])

\* ---- laws of the fold (C20)
SetterNames == { "padding", "ntp", "rtp", "pkts", "octets", "reason", "subtype", "data", "count", "sender", "media", "payload" }
Laws ==
    (HasCfg /\ wraps = <<>>) =>
        \A c1, c2 \in Base(kind) :
           /\ (c1.c \in SetterNames /\ c2.c \in SetterNames /\ c1.c # c2.c) =>
                 ApplyCall(ApplyCall(Cfg, c1), c2) = ApplyCall(ApplyCall(Cfg, c2), c1)          \* independent setters commute
           /\ (c1.c \in SetterNames /\ c1.c = c2.c) =>
                 ApplyCall(ApplyCall(Cfg, c1), c2) = ApplyCall(Cfg, c2)                           \* last value wins
           /\ (c1.c \in SetterNames /\ c2.c \notin SetterNames) =>
                 ApplyCall(ApplyCall(Cfg, c1), c2) = ApplyCall(ApplyCall(Cfg, c2), c1)          \* setters commute with adders
ASSUME FciLaws ==
    /\ \A a \in NackHists : FciCfg([f |-> "nack", adds |-> a]).set = ToSet(a)
    /\ \A a \in NackHists : NackWords(ToSet(a)) = NackWordsRec(ToSet(a))
    /\ \A a \in FirHists :
          LET m == FciCfg([f |-> "fir", adds |-> a]).map
          IN  /\ \A i, j \in 1..Len(m) : i # j => m[i][1] # m[j][1]                                \* one entry per SSRC
              /\ \A s \in { a[i][1] : i \in 1..Len(a) } :
                    LET lastIdx == Max({ i \in 1..Len(a) : a[i][1] = s })
                    IN  \E k \in 1..Len(m) : m[k] = << s, a[lastIdx][2] >>                           \* the last sequence wins

\* ---- acceptance (C16): rules and errors agree
RejectedUnrepresentable ==
    HasCfg =>
        /\ Accepts(Cfg) <=> LocalRules(Cfg) = {}
        /\ \A r \in LocalRules(Cfg) : WriteErrAllowed(Cfg, Err(r.e, [i \in 1..Len(r.f) |-> IF r.f[i] = -1 THEN 0 ELSE r.f[i]]))
        /\ Accepts(Cfg) => ~WriteErrAllowed(Cfg, Err("InvalidPadding", << 0 >>))

-----------------------------------------------------------------------------
(* the script: calls, wrappers, then a fixed battery of observations *)
\* with Observe the builder is observed (size asked) after EVERY call and then configured further: the later
\* observations are made on an instance that has been observed before (stale caches, C06 / C20)
CallOps ==
    IF Observe
    THEN << [op |-> "call", kind |-> kind, c |-> h[1]], [op |-> "calc_size"] >>
         \o Flat([i \in 1..(Len(h) - 1) |-> << [op |-> "call", c |-> h[i + 1]], [op |-> "calc_size"] >>])
    ELSE << [op |-> "call", kind |-> kind, c |-> h[1]] >> \o [i \in 1..(Len(h) - 1) |-> [op |-> "call", c |-> h[i + 1]]]
WrapOps == [i \in 1..Len(wraps) |-> [op |-> "wrap", how |-> wraps[i]]]
ParseOps ==
    LET c == Cfg
    IN  IF c.kind = "compound"
        THEN << [op |-> "cparse", src |-> "image"] >> \o [i \in 1..(Len(Leaves(c)) + 2) |-> [op |-> "cnext"]]
        ELSE IF c.kind = "custom" THEN << [op |-> "parse", kind |-> "custom", fam |-> h[1].fam, src |-> "image"] >>
        ELSE IF c.kind = "unk" THEN << [op |-> "parse", kind |-> "packet", src |-> "image"] >>
        ELSE << [op |-> "parse", kind |-> c.kind, src |-> "image"] >>
             \o (IF Accepts(c) THEN << [op |-> "parse", kind |-> c.kind, b |-> Image(c), enc |-> "spec"] >> ELSE <<>>)
             \o (IF PadOps /\ c.padding = 0
                 THEN << [op |-> "parse_pad", kind |-> c.kind, src |-> "image", n |-> 4],
                         [op |-> "parse_pad", kind |-> c.kind, src |-> "image", n |-> 252] >>
                 ELSE <<>>)
Script ==
    << [op |-> "reset", sid |-> "MC_Writer"] >> \o CallOps \o WrapOps
    \o << [op |-> "calc_size"], [op |-> "get_padding"],
          [op |-> "write_into", rel |-> -1, len |-> 3, fill |-> 1],
          [op |-> "write_twice", rel |-> 2, len |-> 64],
          \* write_into_unchecked into exactly n bytes while the builder of the previous history step is sized in between
          [op |-> "write_unchecked", fill |-> 1,
           decoy |-> [kind |-> kind, calls |-> IF Len(h) >= 2 THEN SubSeq(h, 1, Len(h) - 1) ELSE h]],
          \* ... and a write over a buffer that still holds the image just written
          [op |-> "write_into", rel |-> 1, len |-> 64, fill |-> 4] >>
    \o ParseOps

Emit == HasCfg => PrintT(<< "REPLAY", ToJson(Script) >>)
=============================================================================
