--------------------------------- MODULE Api ---------------------------------
(***************************************************************************)
(* The public API of rtcp-types as a state machine: one action per public  *)
(* call.  The abstract state is what the listed properties talk about:     *)
(*                                                                         *)
(*   bld   the configuration accumulated by the builder under construction *)
(*   ann   what calculate_size last announced for that configuration       *)
(*   wr    the last write_into on that configuration (length, prefill,     *)
(*         result, buffer afterwards)                                       *)
(*   img   the last successfully written image                             *)
(*   cit   the compound iterator: input, tiling, position, fused flag      *)
(*         (pos / over are the code's offset / is_over, anchors of C11)     *)
(*   nit   NACK iterators: word index w and bit index k (0 = the PID        *)
(*         itself, 1..16 = BLP bit), anchors of C15                         *)
(*                                                                         *)
(* Every action is TOTAL: for the arguments of a call it says which         *)
(* results are allowed (a relation, never one arbitrary pick) and how the  *)
(* abstract state changes.  Conformance conjuncts are tagged with the id    *)
(* of the property they belong to; the constant PROPS selects which are     *)
(* enforced, so that a rejection is attributed to the right property.       *)
(***************************************************************************)
EXTENDS Wire

CONSTANT PROPS
P(id) == id \in PROPS

VARIABLES bld, ann, wr, img, cit, nit
vars == << bld, ann, wr, img, cit, nit >>

None == [none |-> TRUE]
IsNone(x) == DOMAIN x = {"none"}

Has(r, f) == f \in DOMAIN r

-----------------------------------------------------------------------------
(* Builder configurations as folds of public calls (C20: the result of a   *)
(* history is the result of the configuration it folds to).                 *)

Z32 == << 0, 0 >>

ApplyRb(r, c) ==
    CASE c.c = "fraction"   -> [r EXCEPT !.fraction = c.v]
      [] c.c = "cumulative" -> [r EXCEPT !.cumulative = c.v]
      [] c.c = "ext_seq"    -> [r EXCEPT !.ext_seq = c.v]
      [] c.c = "jitter"     -> [r EXCEPT !.jitter = c.v]
      [] c.c = "lsr"        -> [r EXCEPT !.lsr = c.v]
      [] c.c = "dlsr"       -> [r EXCEPT !.dlsr = c.v]
RbCfg(calls) ==
    FoldLeft(ApplyRb, [ssrc |-> calls[1].ssrc, fraction |-> 0, cumulative |-> Z32, ext_seq |-> Z32,
                       jitter |-> Z32, lsr |-> Z32, dlsr |-> Z32], Tail(calls))

\* SDES item: new(type, value), prefix(bytes) (last wins), into_owned (no abstract effect)
ApplyItem(it, c) ==
    CASE c.c = "prefix"     -> [it EXCEPT !.prefix = c.v]
      [] c.c = "into_owned" -> it
      [] c.c = "probe"      -> it          \* observing a builder (size / write) has no effect on it
ItemCfg(calls) == FoldLeft(ApplyItem, [type |-> calls[1].type, value |-> calls[1].value, prefix |-> <<>>], Tail(calls))
\* a prefix on a non-PRIV item has no effect on the wire
ChunkCfg(v) == [ssrc |-> v.ssrc, items |-> [i \in 1..Len(v.adds) |-> ItemCfg(v.adds[i].item)]]

\* FIR map: re-adding an SSRC keeps its position and takes the last sequence number
FirAdd(map, e) ==
    IF \E i \in 1..Len(map) : map[i][1] = e[1]
    THEN [i \in 1..Len(map) |-> IF map[i][1] = e[1] THEN << e[1], e[2] >> ELSE map[i]]
    ELSE Append(map, << e[1], e[2] >>)
\* the fold is quadratic; without a repeated SSRC (checked in O(n log n)) the map is the add-list itself
FirMap(adds) ==
    IF Cardinality({ adds[i][1] : i \in 1..Len(adds) }) = Len(adds)
    THEN [i \in 1..Len(adds) |-> << adds[i][1], adds[i][2] >>]
    ELSE FoldLeft(FirAdd, <<>>, adds)
ApplyRpsi(r, c) ==
    CASE c.c = "pt"   -> [r EXCEPT !.pt = c.v]
      [] c.c = "data" -> [r EXCEPT !.data = c.v, !.bits = c.bits]
      [] c.c = "probe" -> r
FciCfg(v) ==
    CASE v.f = "nack" -> [f |-> "nack", set |-> ToSet(v.adds)]
      [] v.f = "fir"  -> [f |-> "fir", map |-> FirMap(v.adds)]
      [] v.f = "sli"  -> [f |-> "sli", list |-> v.adds]
      [] v.f = "rpsi" -> FoldLeft(ApplyRpsi, [f |-> "rpsi", pt |-> 0, data |-> <<>>, bits |-> 0], v.calls)
      [] v.f = "pli"  -> [f |-> "pli"]

\* the third-party family (packet type, minimum length, has SSRC, MAX_COUNT of its RtcpPacket impl), index fam + 1
Family == << << 242, 12, TRUE, 31 >>, << 199, 4, FALSE, 31 >>, << 207, 8, TRUE, 31 >>, << 0, 16, TRUE, 31 >>,
             << 255, 12, TRUE, 31 >>, << 192, 28, TRUE, 31 >>, << 242, 20, TRUE, 31 >>,
             << 210, 8, TRUE, 20 >>, << 211, 4, FALSE, 16 >> >>      \* types whose count has a smaller maximum

\* very long payloads are scripted compactly as big = [rep |-> byte, n |-> count]
BigOr(c, v) == IF Has(c, "big") THEN [i \in 1..c.big.n |-> c.big.rep] ELSE v

RECURSIVE BuildCfg(_, _)
NewCfg(kind, c) ==
    CASE kind = "sr"   -> [kind |-> "sr", ssrc |-> c.ssrc, padding |-> 0, ntp |-> << 0, 0, 0, 0 >>, rtp |-> Z32,
                           pkts |-> Z32, octets |-> Z32, blocks |-> <<>>]
      [] kind = "rr"   -> [kind |-> "rr", ssrc |-> c.ssrc, padding |-> 0, blocks |-> <<>>]
      [] kind = "sdes" -> [kind |-> "sdes", padding |-> 0, chunks |-> <<>>]
      [] kind = "bye"  -> [kind |-> "bye", padding |-> 0, sources |-> <<>>, reason |-> <<>>]
      [] kind = "app"  -> [kind |-> "app", ssrc |-> c.ssrc, padding |-> 0, subtype |-> 0, name |-> c.name, data |-> <<>>]
      [] kind = "unk"  -> [kind |-> "unk", type |-> c.type, count |-> 0, padding |-> 0, data |-> BigOr(c, c.data)]
      [] kind \in {"tfb", "pfb"} -> [kind |-> kind, sender |-> Z32, media |-> Z32, padding |-> 0, fci |-> FciCfg(c.fci)]
      [] kind = "custom" -> [kind |-> "custom", pt |-> Family[c.fam + 1][1], min |-> Family[c.fam + 1][2],
                             has_ssrc |-> Family[c.fam + 1][3], maxc |-> Family[c.fam + 1][4], ssrc |-> c.ssrc, padding |-> 0,
                             count |-> 0, payload |-> <<>>,
                             \* a conservative third-party writer: its calculate_size() is an upper bound (reserve bytes
                             \* more than it writes); see Conservative below
                             reserve |-> IF Has(c, "reserve") THEN c.reserve ELSE 0]
      [] kind = "compound" -> [kind |-> "compound", members |-> <<>>]

ApplyCall(cfg, c) ==
    CASE c.c = "padding"    -> [cfg EXCEPT !.padding = c.v]
      [] c.c = "ntp"        -> [cfg EXCEPT !.ntp = c.v]
      [] c.c = "rtp"        -> [cfg EXCEPT !.rtp = c.v]
      [] c.c = "pkts"       -> [cfg EXCEPT !.pkts = c.v]
      [] c.c = "octets"     -> [cfg EXCEPT !.octets = c.v]
      [] c.c = "add_rb"     -> [cfg EXCEPT !.blocks = Append(@, RbCfg(c.v))]
      [] c.c = "add_chunk"  -> [cfg EXCEPT !.chunks = Append(@, ChunkCfg(c.v))]
      [] c.c = "add_source" -> [cfg EXCEPT !.sources = Append(@, c.v)]
      [] c.c = "reason"     -> [cfg EXCEPT !.reason = c.v]
      [] c.c = "subtype"    -> [cfg EXCEPT !.subtype = c.v]
      [] c.c = "data"       -> [cfg EXCEPT !.data = BigOr(c, c.v)]
      [] c.c = "count"      -> [cfg EXCEPT !.count = c.v]
      [] c.c = "sender"     -> [cfg EXCEPT !.sender = c.v]
      [] c.c = "media"      -> [cfg EXCEPT !.media = c.v]
      [] c.c = "payload"    -> [cfg EXCEPT !.payload = c.v]
      [] c.c = "add_packet" -> [cfg EXCEPT !.members = Append(@, BuildCfg(c.v.kind, c.v.calls))]
      [] c.c = "probe"      -> cfg         \* observing a builder under construction has no effect on it

BuildCfg(kind, calls) == FoldLeft(ApplyCall, NewCfg(kind, calls[1]), Tail(calls))

\* in a configuration, the SDES item prefix only matters for PRIV: normalise for comparisons
NormItem(it) == IF it.type = 8 THEN it ELSE [it EXCEPT !.prefix = <<>>]

-----------------------------------------------------------------------------
(* Results as logged: [t |-> "ok", n |-> ..] | [t |-> "err", e, f] | [t |-> "panic"] *)

IsOk(r)    == r.t = "ok"
IsErr(r)   == r.t = "err"
IsPanic(r) == r.t = "panic"
AsErr(r)   == Err(r.e, r.f)
Prefill(fill, i) == CASE fill = 0 -> 170 [] fill = 1 -> (7 * (i - 1) + 3) % 256 [] fill = 2 -> 0
                      \* mode 4: a reused buffer that still holds the image written last in this session
                      [] fill = 4 -> (IF i <= Len(img) THEN img[i] ELSE 170)
                      \* mode 5: a dirty buffer whose bytes at the end of the announced size look like the padding trailer
                      \* of the configuration about to be written (zeros and the requested padding count)
                      [] fill = 5 -> LET n == IF ~IsNone(bld.cfg) /\ Accepts(bld.cfg) THEN Size(bld.cfg) ELSE 0
                                     IN  IF n >= 4 /\ i \in (n - 3)..n
                                         THEN (IF i = n THEN PaddingOf(bld.cfg) ELSE 0)
                                         ELSE (7 * (i - 1) + 3) % 256
                      [] OTHER -> 255

IsPacketKind(c) == c.kind \notin {"item", "chunk"}

-----------------------------------------------------------------------------
(* writer protocol *)
RoundTripProp(kind) ==
    CASE kind \in {"sr", "rr"} -> "C02" [] kind = "sdes" -> "C03" [] kind \in {"bye", "app"} -> "C04"
      [] kind \in {"tfb", "pfb"} -> "C05" [] OTHER -> "C19"

\* A configuration with a CONSERVATIVE third-party member (a writer outside the crate whose calculate_size() is an
\* upper bound of what it writes) has no RFC image and no size in the sense of C06/C07/C14: of the writer properties
\* only C17 speaks about it (the n bytes reported do not depend on the buffer, nothing beyond n is touched, a failed
\* write touches nothing), and C17's conjuncts do not need the image.
RECURSIVE Conservative(_)
Conservative(c) == IF c.kind = "compound" THEN \E i \in 1..Len(c.members) : Conservative(c.members[i])
                   ELSE c.kind = "custom" /\ c.reserve > 0

\* calculate_size on the current configuration
CalcSizeConf(cfg, res) ==
    Conservative(cfg) \/
    \* round trips start with "every configuration the builder accepts serialises": a representable configuration
    \* is sized without panic
    /\ P(RoundTripProp(cfg.kind)) => (~IsPanic(res) /\ (Accepts(cfg) => IsOk(res)))
    /\ (P("C06") \/ P("C01")) => ~IsPanic(res)
    /\ P("C06") => (IsOk(res) => res.n % 4 = 0)
    /\ (P("C16") \/ P("C20") \/ P("C14") \/ P("C19")) =>
          /\ ~IsPanic(res)
          /\ IsOk(res) <=> Accepts(cfg)
          /\ IsErr(res) => WriteErrAllowed(cfg, AsErr(res))
    /\ (P("C07") \/ P("C20") \/ P("C14") \/ P("C19")) =>
          ((IsOk(res) /\ Accepts(cfg)) => res.n = Size(cfg))

\* FIR entries are written in the iteration order of a hash map, which differs between builder
\* INSTANCES: byte-for-byte comparison of two writes is only meaningful for the same instance
RECURSIVE HasFir(_)
HasFir(c) == IF c.kind = "compound" THEN \E i \in 1..Len(c.members) : HasFir(c.members[i])
             ELSE c.kind \in {"tfb", "pfb"} /\ c.fci.f = "fir"

\* write_into(buffer of length L prefilled with pattern fill) -> res, buffer afterwards = out
\* prev = an earlier write on the same configuration (prev.same: by the same builder instance)
WriteConf(cfg, a, prev, L, fill, res, out) ==
    /\ P(RoundTripProp(cfg.kind)) /\ ~Conservative(cfg) =>
          /\ ~IsPanic(res)
          /\ (Accepts(cfg) /\ ~IsNone(a) /\ IsOk(a) /\ L >= a.n) => IsOk(res)       \* ... and serialises
    /\ P("C06") /\ ~Conservative(cfg) =>
          /\ ~IsPanic(res)
          /\ ~IsNone(a) =>
                /\ (IsOk(a) /\ L >= a.n) => (IsOk(res) /\ res.n = a.n)
                /\ (IsOk(a) /\ L < a.n)  => (IsErr(res) /\ AsErr(res) = Err("OutputTooSmall", << a.n >>))
                /\ IsErr(a) => res = a
          /\ IsOk(res) => res.n <= L
    /\ P("C17") =>
          /\ IsOk(res) => /\ res.n <= L
                          /\ \A i \in (res.n + 1)..L : out[i] = Prefill(fill, i)
          /\ IsErr(res) => \A i \in 1..L : out[i] = Prefill(fill, i)
          /\ (~IsNone(prev) /\ IsOk(res) /\ IsOk(prev.res) /\ prev.fill # fill /\ (prev.same \/ ~HasFir(cfg))) =>
                /\ prev.res.n = res.n
                /\ res.n <= Min2(L, prev.L) => SubSeq(out, 1, res.n) = SubSeq(prev.out, 1, res.n)
    /\ ((P("C07") \/ P("C20") \/ P("C14") \/ P("C19")) /\ ~Conservative(cfg)) =>
          ((IsOk(res) /\ Accepts(cfg)) => (res.n <= Len(out) /\ IsImage(cfg, SubSeq(out, 1, res.n))))
    /\ ((P("C16") \/ P("C20") \/ P("C14") \/ P("C19")) /\ ~Conservative(cfg)) =>
          /\ ~IsPanic(res)
          /\ Accepts(cfg) => (IsOk(res) \/ (IsErr(res) /\ res.e = "OutputTooSmall"))
          /\ ~Accepts(cfg) => (IsErr(res) /\ WriteErrAllowed(cfg, AsErr(res)))
    /\ P("C20") /\ ~Conservative(cfg) =>
          (Accepts(cfg) => /\ L >= Size(cfg) => (IsOk(res) /\ res.n = Size(cfg))
                           /\ L < Size(cfg)  => (IsErr(res) /\ AsErr(res) = Err("OutputTooSmall", << Size(cfg) >>)))

GetPaddingConf(cfg, res) ==
    ((P("C14") \/ P("C20") \/ P("C19")) /\ ~Conservative(cfg)) =>
        /\ IsOk(res)
        \* "no padding" may be reported as None (-1) or as Some(0): the writer trait allows both
        /\ IF PaddingOf(cfg) = 0 THEN res.n \in {-1, 0} ELSE res.n = PaddingOf(cfg)

-----------------------------------------------------------------------------
(* Parsed views.  A view is the record of every accessor's value; slices    *)
(* are [o, n] with o relative to the buffer `base` bytes before the input.  *)

SlOk(got, o, n, base) == got.n = n /\ (n = 0 \/ got.o = o + base)
\* bytes a logged slice denotes inside the input b (offsets relative to b after removing base)
SlBytes(b, got, base) == Slice(b, got.o - base, got.n)
SlInside(b, got, base) == got.n = 0 \/ (got.o - base >= 0 /\ got.o - base + got.n <= Len(b))

HdrOk(b, h, hasPadding) ==
    /\ h.version = 2
    /\ h.type = PType(b)
    /\ h.count = Count(b) /\ h.subtype = Count(b)
    /\ h.length = Len(b)
    /\ hasPadding => h.padding = (IF PBit(b) THEN b[Len(b)] ELSE -1)

\* An accessor / conversion / iterator that panicked is recorded by name in ev.panics and its field is
\* missing from the view.  That is a violation of C01 and of every property that reads the view; C08 and
\* C18 read only the header accessors (counted in ev.hpanics) and error values.
NoPanic(ev) ==
    IF PROPS \subseteq {"C08", "C18"} THEN (P("C08") => ev.hpanics = 0) ELSE ev.panics = <<>>

\* A list-shaped accessor driven in other ways (nth on fresh iterators, repeated nth(1), skip, step_by, last,
\* count, two interleaved iterators, size_hint) describes the same list as plain next() calls.
PartOk(list, r) ==
    LET n == Len(list)
        k == r[1]
    IN  /\ k <= n /\ r[2] = n - k
        /\ r[3] = (IF k < n THEN << list[k + 1] >> ELSE <<>>)
        /\ r[4] = (IF k < n THEN << list[n] >> ELSE <<>>)
        /\ r[5] <= n - k /\ (r[6] = -1 \/ n - k <= r[6])
AltOk(list, alt) ==
    LET n == Len(list)
    IN  /\ alt.n = n
        /\ \A k \in 1..Len(alt.nth) : alt.nth[k][1] < n /\ alt.nth[k][2] = << list[alt.nth[k][1] + 1] >>
        /\ alt.nth_end
        /\ alt.nth_seq = [i \in 1..(n \div 2) |-> list[2 * i]]
        /\ alt.skip = SubSeq(list, (n \div 2) + 1, n)
        /\ alt.step = [i \in 1..((n + 2) \div 3) |-> list[3 * (i - 1) + 1]]
        /\ alt.last = (IF n = 0 THEN <<>> ELSE << list[n] >>)
        /\ alt.a = list /\ alt.b = list
        /\ alt.hint[1] <= n /\ (alt.hint[2] = -1 \/ n <= alt.hint[2])
        \* partly consumed by next(), the rest through fold / for_each / try_for_each; size_hint on the way and after
        \* an nth() beyond the end
        /\ \A nm \in {"fold", "tryf", "foreach"} :
              Has(alt, nm) => \A i \in 1..Len(alt[nm]) : PartOk(list, alt[nm][i])
        /\ Has(alt, "hint_end") => (alt.hint_end[1] = 0 /\ alt.hint_end2[1] = 0)
        \* last() and count() on the iterator itself, fresh and after k calls of next()
        /\ Has(alt, "lastd") => \A i \in 1..Len(alt.lastd) :
              LET k == alt.lastd[i][1]
              IN  /\ k <= n
                  /\ alt.lastd[i][2] = (IF k < n THEN << list[n] >> ELSE <<>>)
                  /\ alt.lastd[i][3] = n - k

\* ---- fixed-layout fields (C09)
SrFieldsOk(b, v) ==
    /\ AltOk([i \in 1..Len(v.blocks) |-> v.blocks[i].ssrc], v.blocks_alt)
    /\ v.ssrc = U32At(b, 5) /\ v.ntp = U64At(b, 9) /\ v.rtp = U32At(b, 17)
    /\ v.pkts = U32At(b, 21) /\ v.octets = U32At(b, 25)
    /\ v.n_reports = Count(b)
    /\ v.blocks = DecBlocks(b, 28, Count(b))
RrFieldsOk(b, v) ==
    /\ AltOk([i \in 1..Len(v.blocks) |-> v.blocks[i].ssrc], v.blocks_alt)
    /\ v.ssrc = U32At(b, 5) /\ v.n_reports = Count(b) /\ v.blocks = DecBlocks(b, 8, Count(b))

ByeFieldsOk(b, v, base) ==
    LET c   == Count(b)
        off == 4 + 4 * c
        end == Len(b) - PadCount(b)
    IN  /\ v.ssrcs = [i \in 1..c |-> U32At(b, 4 * i + 1)]
        /\ AltOk(v.ssrcs, v.ssrcs_alt)
        /\ RegularPad(b, off) =>
              IF end = off THEN v.reason.some = 0
              ELSE (off + 1 + b[off + 1] <= end) =>
                      /\ v.reason.some = 1 /\ SlOk(v.reason, off + 1, b[off + 1], base)
                      \* the string form of the same bytes (well-formed UTF-8 or an error)
                      /\ v.reason_str = (IF IsUtf8(Slice(b, off + 1, b[off + 1])) THEN "ok" ELSE "utf8err")
        /\ v.reason.some = 0 => v.reason_str = "none"

AppFieldsOk(b, v, base) ==
    /\ v.ssrc = U32At(b, 5)
    /\ v.name = Slice(b, 8, 4)
    /\ LET nm == UntilZero(Slice(b, 8, 4)) IN v.name_str = (IF IsUtf8(nm) THEN nm ELSE << -1 >>)
    /\ RegularPad(b, 12) => SlOk(v.data, 12, Len(b) - 12 - PadCount(b), base)

\* ---- FCI decode laws (C15).  region = the FCI bytes (padding excluded), at 0-based offset roff of b
NackLaw(region, r) == IsOk(r) => (r.entries = DecNack(region) /\ AltOk(r.entries, r.entries_alt))
FirLaw(region, r)  == IsOk(r) => (r.entries = DecFir(region) /\ AltOk(r.entries, r.entries_alt))
SliLaw(region, r)  == IsOk(r) => (r.entries = DecSli(region) /\ AltOk(r.entries, r.entries_alt))
PliLaw(region, r)  == IsOk(r) => region = <<>>
RpsiLaw(region, r, roff, base) ==
    IsOk(r) =>
      /\ Len(region) >= 2
      /\ r.pt = region[2] % 128
      /\ LET avail == 8 * (Len(region) - 2)
             pb    == region[1]
         IN  pb <= avail =>
               /\ r.bs.o - base - roff >= 2 /\ r.bs.o - base - roff + r.bs.n <= Len(region)
               /\ r.bs.bits \in 0..(8 * r.bs.n)
               /\ BitsOf(Slice(region, r.bs.o - base - roff, r.bs.n), r.bs.bits)
                     = BitsOf(SubSeq(region, 3, Len(region)), pb)

FciLaw(f, region, r, roff, base) ==
    CASE f = "nack" -> NackLaw(region, r)
      [] f = "fir"  -> FirLaw(region, r)
      [] f = "sli"  -> SliLaw(region, r)
      [] f = "pli"  -> PliLaw(region, r)
      [] f = "rpsi" -> RpsiLaw(region, r, roff, base)

FbFieldsOk(kind, b, v, base) ==
    /\ P("C09") => (v.sender = U32At(b, 5) /\ v.media = U32At(b, 9))
    /\ P("C18") => \A f \in FciTypes : IsErr(v.fci[f]) => Truthful(-1, b, AsErr(v.fci[f]))
    /\ P("C15") =>
          \A f \in FciTypes :
             /\ ~IsPanic(v.fci[f])
             /\ IsOk(v.fci[f]) => (FciKind(f) = kind /\ FciFmtOf(f) = Count(b))   \* kind / format gating
             \* the FCI is what lies between the two SSRCs and the padding (RFC 3550: the last octet counts the octets
             \* to ignore).  Every law is of the form "decoded => consistent with that region", so a padding count
             \* that is not a multiple of 4 needs no exclusion: a parser may refuse such a packet's FCI, but what it
             \* decodes must be the region's content.  Only a count that overlaps the fixed part is left open.
             /\ (FciKind(f) = kind /\ FciFmtOf(f) = Count(b) /\ 12 + PadCount(b) <= Len(b)) =>
                   FciLaw(f, SubSeq(b, 13, Len(b) - PadCount(b)), v.fci[f], 12, base)

\* ---- SDES (C10)
ItemGotOk(b, tok, it, base) ==
    /\ it.type = tok.type /\ it.length = tok.length
    /\ SlOk(it.value, tok.vo, tok.vn, base)
    /\ it.plen = tok.plen
    /\ tok.type = 8 => SlOk(it.prefix, tok.po, tok.pn, base)
    /\ it.value_str = IsUtf8(Slice(b, tok.vo, tok.vn))       \* the string form of the value bytes
ChunkGotOk(b, tok, ch, base, withLen) ==
    /\ ch.ssrc = tok.ssrc
    /\ Len(ch.items) = Len(tok.items)
    /\ \A i \in 1..Len(tok.items) : ItemGotOk(b, tok.items[i], ch.items[i], base)
    /\ withLen => ch.length = tok.length
\* rebase the logged chunks to offsets relative to b, in the token shape of Wire!ItemTok
GotTok(it, base) == [ type |-> it.type, length |-> it.length, vo |-> it.value.o - base, vn |-> it.value.n,
                      po |-> IF it.type = 8 THEN it.prefix.o - base ELSE -1,
                      pn |-> IF it.type = 8 THEN it.prefix.n ELSE 0, plen |-> it.plen ]
GotChunks(chunks, base) ==
    [i \in 1..Len(chunks) |-> [ssrc |-> chunks[i].ssrc,
                               items |-> [j \in 1..Len(chunks[i].items) |-> GotTok(chunks[i].items[j], base)]]]

SdesAltOk(v) ==
    /\ AltOk([i \in 1..Len(v.chunks) |-> v.chunks[i].ssrc], v.chunks_alt)
    /\ \A i \in 1..Len(v.chunks) :
          AltOk([j \in 1..Len(v.chunks[i].items) |-> << v.chunks[i].items[j].type, v.chunks[i].items[j].value.o >>],
                v.chunks[i].items_alt)
\* for very long item lists the reported items serve as (validated) hints to the tokeniser, see Wire!SdesItemsWalkH
SdesHints(v, base) ==
    IF \E i \in 1..Len(v.chunks) : Len(v.chunks[i].items) > 1500
    THEN [i \in 1..Len(v.chunks) |-> [j \in 1..Len(v.chunks[i].items) |-> GotTok(v.chunks[i].items[j], base)]]
    ELSE <<>>
SdesFieldsOk(b, v, base) ==
    LET vd == SdesVerdictH(b, SdesHints(v, base))
    IN  /\ SdesAltOk(v)
        /\ CASE vd.v = "must" ->
                /\ Len(v.chunks) = Len(vd.chunks)
                /\ \A i \in 1..Len(vd.chunks) : ChunkGotOk(b, vd.chunks[i], v.chunks[i], base, TRUE)
          [] vd.v = "either" -> vd.irregular \/ ConsistentTokens(b, GotChunks(v.chunks, base))
          [] OTHER -> FALSE       \* "reject": acceptance itself is the violation

\* ---- acceptance (C08 / C10 / C09 / C19)
CanAccept(kind, b) ==
    CASE kind \in PacketKinds -> Framed(MinLen(kind), PTOf(kind), b) /\ CountBodyFits(kind, b)
      [] kind = "unknown" -> FramedUnknown(b)
      [] kind = "rb" -> Len(b) = 24
      [] OTHER -> TRUE

\* decode b as kind, back to a configuration (only meaningful when CanAccept)
DecCfg(kind, b) ==
    LET p == PadCount(b)
    IN CASE kind = "sr" -> [kind |-> "sr", ssrc |-> U32At(b, 5), padding |-> p, ntp |-> U64At(b, 9), rtp |-> U32At(b, 17),
                            pkts |-> U32At(b, 21), octets |-> U32At(b, 25), blocks |-> DecBlocks(b, 28, Count(b))]
         [] kind = "rr" -> [kind |-> "rr", ssrc |-> U32At(b, 5), padding |-> p, blocks |-> DecBlocks(b, 8, Count(b))]
         [] kind = "app" -> [kind |-> "app", ssrc |-> U32At(b, 5), padding |-> p, subtype |-> Count(b),
                             name |-> Slice(b, 8, 4), data |-> SubSeq(b, 13, Len(b) - p)]
         [] kind = "bye" ->
               LET c == Count(b)
                   off == 4 + 4 * c
                   end == Len(b) - p
               IN  [kind |-> "bye", padding |-> p, sources |-> [i \in 1..c |-> U32At(b, 4 * i + 1)],
                    reason |-> IF end > off /\ off + 1 + b[off + 1] <= end THEN Slice(b, off + 1, b[off + 1]) ELSE <<>>]

\* well-formed packets of an independent RFC encoder are always accepted (C09):
\* b is in the range of the spec's encoder for a configuration the builders accept
MustAccept(kind, b) ==
    CASE kind \in {"app", "bye"} ->
            /\ CanAccept(kind, b) /\ RegularPad(b, MinLen(kind))
            /\ LET c == DecCfg(kind, b) IN LocalRules(c) = {} /\ Image(c) = b
      \* SR / RR: the fixed part and the announced report blocks, then any profile-specific extension
      \* (RFC 3550 6.4.1, 6.4.2), then regular padding: every such string is a well-formed report
      [] kind \in {"sr", "rr"} ->
            /\ CanAccept(kind, b) /\ RegularPad(b, MinLen(kind) + 24 * Count(b))
            /\ AllZero(b, Len(b) - PadCount(b) + 1, Len(b) - 1)
      [] kind \in {"tfb", "pfb"} -> CanAccept(kind, b) /\ RegularPad(b, 12) /\ AllZero(b, Len(b) - PadCount(b) + 1, Len(b) - 1)
      [] kind = "sdes" -> CanAccept(kind, b) /\ Len(b) <= 40000 /\ SdesVerdict(b).v = "must"
                          /\ AllZero(b, Len(b) - PadCount(b) + 1, Len(b) - 1)
      [] kind = "unknown" -> FramedUnknown(b)
      [] kind = "rb" -> Len(b) = 24
      [] OTHER -> FALSE
MustReject(kind, b) ==
    CASE kind = "sdes" -> Framed(4, PT_SDES, b) /\ Len(b) <= 40000 /\ SdesVerdict(b).v = "reject"
      [] OTHER -> FALSE

ParseErrOk(kind, b, res) ==
    P("C18") => ErrAllowed(MinLen(kind), PTOf(kind), b, AsErr(res))

\* conformance of a typed parser's result on b (typed kinds, unknown, rb)
RECURSIVE TypedConf(_, _, _, _)
UnknownViewOk(b, v, base) ==
    /\ P("C08") => HdrOk(b, v.hdr, FALSE)
    /\ (P("C09") \/ P("C12") \/ P("C19")) => (v.data.o = base /\ v.data.n = Len(b))
    \* every conversion path from an unknown packet (by reference, by value, wrapped into the generic enum first and
    \* then by reference / by value) IS the typed parser on these bytes: all of its obligations apply (C01, C08, C09,
    \* C10, C15, C18 ...), and (C12) all paths give the same result
    /\ \A t \in PacketKinds : \A sfx \in {"", "_val", "_pkt", "_pktval"} :
          Has(v.conv, t \o sfx) => TypedConf(t, b, v.conv[t \o sfx], base)
    /\ P("C12") =>
          \A t \in PacketKinds : \A sfx \in {"_val", "_pkt", "_pktval"} :
             (Has(v.conv, t) /\ Has(v.conv, t \o sfx)) => v.conv[t] = v.conv[t \o sfx]

ViewOk(kind, b, v, base) ==
    /\ kind \in PacketKinds => (P("C08") => HdrOk(b, v.hdr, TRUE))
    \* reading every accessor a second time on the same value gives the same view
    /\ (Has(v, "again") /\ (P("C01") \/ P("C09") \/ P("C10") \/ P("C12") \/ P("C15"))) => v.again
    /\ CASE kind = "sr"   -> P("C09") => SrFieldsOk(b, v)
         [] kind = "rr"   -> P("C09") => RrFieldsOk(b, v)
         [] kind = "bye"  -> P("C09") => ByeFieldsOk(b, v, base)
         [] kind = "app"  -> P("C09") => AppFieldsOk(b, v, base)
         [] kind = "sdes" -> P("C10") => SdesFieldsOk(b, v, base)
         [] kind \in {"tfb", "pfb"} -> FbFieldsOk(kind, b, v, base)
         [] kind = "unknown" -> UnknownViewOk(b, v, base)
         [] kind = "rb" -> P("C09") => v = DecRB(b)

TypedConf(kind, b, res, base) ==
    /\ P("C01") => ~IsPanic(res)
    \* From<T> for Packet: the typed value wrapped into the generic enum has the variant of its type and the same contents
    /\ (P("C12") /\ IsOk(res) /\ Has(res, "as_packet")) => (res.as_packet.variant = kind /\ res.as_packet.same)
    \* a fresh parse of the same bytes, read in another accessor order first, gives the same view
    /\ ((P("C01") \/ P("C09") \/ P("C10") \/ P("C15")) /\ IsOk(res) /\ Has(res, "fresh_same")) => res.fresh_same
    \* a clone of the value reads like the value and equals it; two parses of the same bytes are equal
    /\ ((P("C01") \/ P("C09") \/ P("C10") \/ P("C15")) /\ IsOk(res) /\ Has(res, "clone_same")) => res.clone_same
    \* C18, second sentence: a too-short input and a version-2 input of the right type with a wrong length ARE reported
    /\ (P("C18") /\ MandatedErr(MinLen(kind), PTOf(kind), b) # {}) => IsErr(res)
    /\ IsOk(res) =>
          /\ (P("C08") \/ (kind = "sdes" /\ P("C10")) \/ (kind = "unknown" /\ P("C19"))) => CanAccept(kind, b)
          /\ CanAccept(kind, b) => ViewOk(kind, b, res.view, base)
    /\ IsErr(res) =>
          /\ ParseErrOk(kind, b, res)
          /\ (P("C09") \/ (kind = "sdes" /\ P("C10")) \/ (kind = "unknown" /\ P("C19"))) => ~MustAccept(kind, b)
    /\ (kind = "sdes" /\ P("C10")) => (MustReject(kind, b) => ~IsOk(res))

\* direct FCI parser entry points (FciParser::parse on a raw region)
FciDirectConf(f, region, res) ==
    /\ P("C01") => ~IsPanic(res)
    /\ P("C15") => FciLaw(f, region, res, 0, 0)
    /\ P("C18") => (IsErr(res) => Truthful(-1, region, AsErr(res)))

Core(r) == IF IsOk(r) THEN [t |-> "ok", view |-> r.view] ELSE r      \* a result without its side observations
\* the generic parser (C12): dispatch on the packet type byte, outcome identical to the typed parser's.
\* typed = the results of all typed parsers and of the unknown parser on the same bytes (may be None)
PacketConf(b, res, typed, base) ==
    /\ P("C01") => ~IsPanic(res)
    /\ Len(b) < 4 =>
          /\ ~IsOk(res)
          /\ P("C18") => (IsErr(res) => AsErr(res) = Err("Truncated", << 4, Len(b) >>))
    /\ Len(b) >= 4 =>
          LET var == Variant(PType(b))
          IN  /\ IsOk(res) =>
                    /\ (P("C12") \/ P("C08")) => res.view.variant = var
                    /\ res.view.variant = var =>
                          /\ TypedConf(var, b, [t |-> "ok", view |-> res.view.inner], base)
                          /\ P("C08") => (res.view.phdr = [f \in DOMAIN res.view.phdr |-> res.view.inner.hdr[f]])
                          \* C18: an error of a conversion from the parsed packet tells the truth about these bytes
                          /\ P("C18") =>
                                \A t \in PacketKinds :
                                   /\ IsErr(res.view.conv[t]) => Truthful(PTOf(t), b, AsErr(res.view.conv[t]))
                                   /\ (Has(res.view, "conv_val") /\ IsErr(res.view.conv_val[t])) =>
                                         Truthful(PTOf(t), b, AsErr(res.view.conv_val[t]))
                          /\ P("C12") =>
                                /\ res.view.is_unknown = (var = "unknown")
                                /\ \A t \in PacketKinds :
                                      LET cv == res.view.conv[t]
                                      IN  /\ Has(res.view, "conv_val") => res.view.conv_val[t] = cv
                                          /\ IF t = var THEN cv = [t |-> "ok", view |-> res.view.inner]
                                             ELSE IF var = "unknown" THEN cv = res.view.inner.conv[t]
                                             ELSE cv = [t |-> "err", e |-> "PacketTypeMismatch", f |-> << PType(b), PTOf(t) >>]
              /\ IsErr(res) => TypedConf(var, b, res, base)
              /\ (P("C12") /\ ~IsNone(typed)) =>
                    /\ IsOk(res) => (IsOk(typed[var]) /\ typed[var].view = res.view.inner)
                    /\ IsErr(res) => Core(typed[var]) = res
                    /\ IsOk(typed["unknown"]) => \A t \in PacketKinds : typed["unknown"].view.conv[t] = Core(typed[t])

-----------------------------------------------------------------------------
(* Round trip (C02-C05, C14, C19): the view of the parsed image is the      *)
(* configuration that was built.                                            *)

PadView(p) == IF p = 0 THEN -1 ELSE p

RtFci(fci, r, b, base) ==
    /\ IsOk(r)
    /\ fci.f \in {"nack", "fir", "sli"} => AltOk(r.entries, r.entries_alt)
    /\ CASE fci.f = "nack" -> r.entries = SetToSortSeq(fci.set, <)
         [] fci.f = "fir"  -> SameBag(r.entries, fci.map)
         [] fci.f = "sli"  -> r.entries = fci.list
         [] fci.f = "rpsi" -> /\ r.pt = fci.pt
                              /\ SlInside(b, r.bs, base)
                              /\ BitsOf(SlBytes(b, r.bs, base), r.bs.bits) = BitsOf(fci.data, fci.bits)
         [] fci.f = "pli"  -> TRUE

RoundTripOk(cfg, b, v, base) ==
    CASE cfg.kind = "sr" ->
            /\ v.hdr.padding = PadView(cfg.padding)
            /\ v.ssrc = cfg.ssrc /\ v.ntp = cfg.ntp /\ v.rtp = cfg.rtp /\ v.pkts = cfg.pkts /\ v.octets = cfg.octets
            /\ v.n_reports = Len(cfg.blocks) /\ v.blocks = cfg.blocks
            /\ AltOk([i \in 1..Len(v.blocks) |-> v.blocks[i].ssrc], v.blocks_alt)
      [] cfg.kind = "rr" ->
            /\ v.hdr.padding = PadView(cfg.padding)
            /\ v.ssrc = cfg.ssrc /\ v.n_reports = Len(cfg.blocks) /\ v.blocks = cfg.blocks
            /\ AltOk([i \in 1..Len(v.blocks) |-> v.blocks[i].ssrc], v.blocks_alt)
      [] cfg.kind = "sdes" ->
            /\ SdesAltOk(v)
            /\ v.hdr.padding = PadView(cfg.padding)
            /\ Len(v.chunks) = Len(cfg.chunks)
            /\ \A i \in 1..Len(cfg.chunks) :
                  LET ch == v.chunks[i]
                      cc == cfg.chunks[i]
                  IN  /\ ch.ssrc = cc.ssrc
                      /\ Len(ch.items) = Len(cc.items)
                      /\ \A j \in 1..Len(cc.items) :
                            /\ ch.items[j].type = cc.items[j].type
                            /\ SlInside(b, ch.items[j].value, base)
                            /\ SlBytes(b, ch.items[j].value, base) = cc.items[j].value
                            /\ cc.items[j].type = 8 =>
                                  /\ SlInside(b, ch.items[j].prefix, base)
                                  /\ SlBytes(b, ch.items[j].prefix, base) = cc.items[j].prefix
                                  /\ ch.items[j].plen = Len(cc.items[j].prefix)
      [] cfg.kind = "bye" ->
            /\ v.hdr.padding = PadView(cfg.padding)
            /\ v.ssrcs = cfg.sources /\ AltOk(v.ssrcs, v.ssrcs_alt)
            /\ IF cfg.reason = <<>> THEN v.reason.some = 0
               ELSE v.reason.some = 1 /\ SlInside(b, v.reason, base) /\ SlBytes(b, v.reason, base) = cfg.reason
      [] cfg.kind = "app" ->
            /\ v.hdr.padding = PadView(cfg.padding)
            /\ v.ssrc = cfg.ssrc /\ v.hdr.subtype = cfg.subtype
            /\ v.name = cfg.name \o Zeros(4 - Len(cfg.name))
            /\ SlInside(b, v.data, base) /\ SlBytes(b, v.data, base) = cfg.data
      [] cfg.kind \in {"tfb", "pfb"} ->
            /\ v.hdr.padding = PadView(cfg.padding)
            /\ v.sender = cfg.sender /\ v.media = cfg.media /\ v.hdr.count = FciFormat(cfg.fci)
            \* an empty FIR / SLI list is accepted by the builders but RFC 5104 / 4585 require >= 1 entry: not constrained
            /\ ~(cfg.fci.f \in {"fir", "sli"} /\ Size(cfg) = 12 + cfg.padding) => RtFci(cfg.fci, v.fci[cfg.fci.f], b, base)
      [] OTHER -> TRUE


-----------------------------------------------------------------------------
(* C13: padding transparency, on a pair of observations (unpadded, padded)  *)

ContentEq(kind, v, w) ==      \* every content accessor equal; header length / padding differ by design
    CASE kind = "sr"   -> [f \in DOMAIN v \ {"hdr"} |-> v[f]] = [f \in DOMAIN w \ {"hdr"} |-> w[f]]
      [] kind = "rr"   -> [f \in DOMAIN v \ {"hdr"} |-> v[f]] = [f \in DOMAIN w \ {"hdr"} |-> w[f]]
      [] kind = "sdes" -> [i \in 1..Len(v.chunks) |-> [f \in DOMAIN v.chunks[i] \ {"length"} |-> v.chunks[i][f]]]
                             = [i \in 1..Len(w.chunks) |-> [f \in DOMAIN w.chunks[i] \ {"length"} |-> w.chunks[i][f]]]
                          /\ \A i \in 1..Len(v.chunks) : v.chunks[i].length = w.chunks[i].length
      [] kind = "bye"  -> v.ssrcs = w.ssrcs /\ v.reason = w.reason /\ v.reason_str = w.reason_str
      [] kind = "app"  -> v.ssrc = w.ssrc /\ v.name = w.name /\ v.data = w.data /\ v.hdr.subtype = w.hdr.subtype
      [] kind \in {"tfb", "pfb"} -> v.sender = w.sender /\ v.media = w.media /\ v.fci = w.fci
      [] OTHER -> TRUE
\* the same through the generic parser: same variant, same contents, and the by-reference conversion to that
\* variant (which copies the value) still has them
PacketContentEq(v, w) ==
    /\ v.variant = w.variant
    /\ v.variant \in PacketKinds =>
          /\ ContentEq(v.variant, v.inner, w.inner)
          /\ IsOk(w.conv[w.variant]) /\ ContentEq(v.variant, v.inner, w.conv[w.variant].view)
          /\ Has(w, "conv_val") => (IsOk(w.conv_val[w.variant]) /\ ContentEq(v.variant, v.inner, w.conv_val[w.variant].view))

PadPairConf(kind, b, n, padded, res, resp) ==
    (P("C13") /\ IsOk(res) /\ ~PBit(b)) =>
          /\ IsOk(resp)
          /\ Has(resp, "fresh_same") => resp.fresh_same          \* whatever the order in which the padded value is read
          /\ IF kind = "packet"
             THEN /\ resp.view.phdr.length = Len(b) + n /\ resp.view.phdr.count = res.view.phdr.count
                  /\ resp.view.variant \in PacketKinds => resp.view.inner.hdr.padding = n
                  /\ PacketContentEq(res.view, resp.view)
             ELSE /\ resp.view.hdr.padding = n
                  /\ resp.view.hdr.length = Len(b) + n
                  /\ resp.view.hdr.count = res.view.hdr.count
                  /\ ContentEq(kind, res.view, resp.view)

-----------------------------------------------------------------------------
(* C11: the compound iterator                                                *)

NoCit == [valid |-> FALSE, b |-> <<>>, tiles |-> <<>>, pos |-> 1, over |-> TRUE, yielded |-> 0, leaves |-> <<>>]

\* tl = Tiling(b) (for very long inputs: a validated witness of it)
CParseConf(b, res, tl) ==
    /\ (P("C01") \/ P("C11")) => ~IsPanic(res)
    /\ P("C11") => (IsOk(res) <=> (b # <<>> /\ tl.ok))
    /\ P("C18") => (IsErr(res) =>
                      /\ Truthful(-1, b, AsErr(res))
                      /\ Len(b) < 4 => AsErr(res) = Err("Truncated", << 4, Len(b) >>))

\* leaves: when b is the image just written from a compound configuration, its leaf members (C14)
CitAfterParse(b, res, leaves, tl) ==
    IF IsOk(res)
    THEN [valid |-> TRUE, b |-> b, tiles |-> tl.tiles, pos |-> 1, over |-> ~(b # <<>> /\ tl.ok), yielded |-> 0,
          leaves |-> leaves]
    ELSE NoCit

TileBytes(c) == Slice(c.b, c.tiles[c.pos][1], c.tiles[c.pos][2])

\* next(): after the end or after an error -> None forever; else the generic parser's outcome on tile pos.
\* CONTROL part: which of none / some the call may return in iterator state c (IterFused, IterBounded)
CNextCtl(c, res) ==
    /\ (P("C01") \/ P("C11")) => res.t \in {"none", "some"}
    /\ P("C11") => (IF c.over \/ c.pos > Len(c.tiles) THEN res.t = "none" ELSE res.t = "some")

\* CONTENT part: what is yielded is the generic parser's outcome on that tile (IterFaithful)
CNextConf(c, ev) ==
    LET res == ev.res
    IN  /\ CNextCtl(c, res)
        /\ NoPanic(ev)
        \* IterFaithful against the real generic parser: what next() yields is what Packet::parse returns on that
        \* tile alone (C14: "each equal to the member parsed on its own").  A tile named by the executor itself
        \* (tile_auto: read off the iterator's Debug rendering) only counts when it is the tile of the specification.
        /\ ((P("C11") \/ P("C14")) /\ ~(c.over \/ c.pos > Len(c.tiles)) /\ res.t = "some") =>
                   /\ (Has(ev, "direct") /\ (~Has(ev, "tile_auto") \/ ev.tile = c.tiles[c.pos])) =>
                         /\ ev.tile = c.tiles[c.pos]
                         /\ res.item = ev.direct
                   /\ (Has(ev, "dbg") /\ ev.dbg # <<>>) =>            \* extra cross-check on the code's own offset
                         ev.dbg[1] = c.tiles[c.pos][1] + c.tiles[c.pos][2]
        /\ (res.t = "some" /\ ~(c.over \/ c.pos > Len(c.tiles))) =>
              PacketConf(TileBytes(c), res.item, None, c.tiles[c.pos][1])
        \* C14: a compound image parses back to one packet per leaf member, each equal to the member itself
        /\ (P("C14") /\ c.leaves # <<>>) =>
              IF c.pos <= Len(c.leaves)
              THEN /\ Len(c.tiles) = Len(c.leaves)
                   /\ res.t = "some" /\ IsOk(res.item)
                   /\ LET leaf == c.leaves[c.pos]
                      IN  /\ TileBytes(c) = Image(leaf) \/ HasChoice(leaf)
                          /\ res.item.view.variant = (IF leaf.kind \in PacketKinds THEN leaf.kind ELSE
                                                      Variant(IF leaf.kind = "unk" THEN leaf.type ELSE leaf.pt))
                          /\ res.item.view.variant = leaf.kind =>
                                RoundTripOk(leaf, TileBytes(c), res.item.view.inner, c.tiles[c.pos][1])
              ELSE res.t = "none"

CitAfterNext(c, res) ==
    IF c.over \/ c.pos > Len(c.tiles) \/ res.t # "some" THEN [c EXCEPT !.over = TRUE]
    ELSE [c EXCEPT !.pos = @ + 1, !.yielded = @ + 1,
                   !.over = (~IsOk(res.item)) \/ (c.pos = Len(c.tiles))]

-----------------------------------------------------------------------------
(* C15: the NACK iterator as a two-level state machine                       *)

NackWordsOf(bytes) == Words(bytes, 4)

\* one step of the iterator from state [w, k]: returns [out, w, k]; out = -1 means None
RECURSIVE NackStep(_, _, _)
NackStep(ws, w, k) ==
    IF w > Len(ws) THEN [out |-> -1, w |-> w, k |-> k]
    ELSE LET pid == U16At(ws[w], 1)
             blp == U16At(ws[w], 3)
         IN  IF k = 0 THEN [out |-> pid, w |-> w, k |-> 1]
             ELSE LET set == {j \in k..16 : (blp \div Pow2(j - 1)) % 2 = 1}
                  IN  IF set = {} THEN NackStep(ws, w + 1, 0)
                      ELSE LET j == Min(set) IN [out |-> (pid + j) % 65536, w |-> w, k |-> j + 1]

NackNextConf(it, res) ==
    LET s == NackStep(it.ws, it.w, it.k)
    IN  /\ (P("C01") \/ P("C15")) => ~IsPanic(res)
        /\ P("C15") => IF s.out = -1 THEN res.t = "none" ELSE (res.t = "some" /\ res.v = s.out)

-----------------------------------------------------------------------------
(* C19: the public helpers                                                   *)

CheckPaddingConf(p, res) ==
    P("C19") => /\ IsOk(res) <=> p % 4 = 0
                /\ IsErr(res) => AsErr(res) = Err("InvalidPadding", << p >>)

\* write_header_unchecked::<P>(padding, count, buf[..hlen]) inside a buffer of length L
WriteHeaderConf(pt, p, cnt, L, hlen, fill, res, out) ==
    P("C19") =>
       /\ IsOk(res) /\ res.n = 4
       /\ SubSeq(out, 1, 4) = Header(p > 0, cnt, pt, hlen)
       /\ \A i \in 5..L : out[i] = Prefill(fill, i)

WritePaddingConf(p, L, fill, res, out) ==
    P("C19") =>
       /\ IsOk(res) /\ res.n = p
       /\ SubSeq(out, 1, p) = PadTrailer(p)
       /\ \A i \in (p + 1)..L : out[i] = Prefill(fill, i)

ParseHelpersConf(b, r, panics) ==
    P("C19") =>
       /\ panics = <<>>
       /\ r.version = Version(b) /\ r.padding_bit = PBit(b) /\ r.count = Count(b) /\ r.type = PType(b)
       /\ r.length = HdrLen(b) /\ r.ssrc = U32At(b, 5)
       /\ r.padding = (IF PBit(b) THEN b[HdrLen(b)] ELSE -1)

\* a family member's parser = check_packet::<P>: accepts PRECISELY the well-framed strings (both directions)
CustomConf(fam, b, r) ==
    LET pt  == Family[fam + 1][1]
        min == Family[fam + 1][2]
        hs  == Family[fam + 1][3]
        d   == r.direct
    IN  /\ (P("C01") \/ P("C19")) => ~IsPanic(d)
        /\ P("C19") =>
              /\ IsOk(d) <=> Framed(min, pt, b)
              /\ IsOk(d) =>
                    /\ HdrOk(b, d.view.hdr, TRUE)
                    /\ d.view.raw.o = 0 /\ d.view.raw.n = Len(b)
                    /\ (hs /\ Len(b) >= 8) => d.view.ssrc = U32At(b, 5)
                    /\ RegularPad(b, IF hs THEN 8 ELSE 4) =>
                          SlOk(d.view.payload, IF hs THEN 8 ELSE 4, Len(b) - PadCount(b) - (IF hs THEN 8 ELSE 4), 0)
              \* via Packet::parse + try_as and via Unknown::parse + try_as: every field intact
              /\ (FramedUnknown(b) /\ PType(b) \notin 200..206) => (r.via_packet = d /\ r.via_unknown = d)
              /\ FramedUnknown(b) => r.via_unknown = d
        /\ (P("C18") \/ P("C19")) => (IsErr(d) => ErrAllowed(min, pt, b, AsErr(d)))

-----------------------------------------------------------------------------
(* The API as a state machine.  An EVENT is one public call with its        *)
(* arguments and its complete observable result.  Conf(ev) says whether the *)
(* specification allows that result in the current abstract state (the      *)
(* conjuncts of the properties selected by PROPS); Update(ev) is the effect *)
(* of the call on the abstract state.  Step(ev) = Conf /\ Update is the     *)
(* action; Trace.tla takes it for every recorded event, the MC_* models     *)
(* take it for events drawn from bounded domains.                            *)

NoBld == [cfg |-> None]
InitState ==
    /\ bld = NoBld /\ ann = None /\ wr = None /\ img = <<>>
    /\ cit = NoCit /\ nit = [ws |-> <<>>, its |-> <<>>]

ResetState ==
    /\ bld' = NoBld /\ ann' = None /\ wr' = None /\ img' = <<>>
    /\ cit' = NoCit /\ nit' = [ws |-> <<>>, its |-> <<>>]

IsImageSrc(ev) == Has(ev, "src") /\ ev.src = "image" /\ ~Has(ev, "edits") /\ ~Has(ev, "trunc") /\ ~Has(ev, "append")

\* round-trip context: the input is the image that the current configuration just wrote.  "Every packet the builder
\* accepts ... parses back with the same fields" is about what the BUILDER accepted (the write succeeded), whether
\* or not the configuration is representable: a builder that serialises an unrepresentable configuration is judged
\* on the fields that come back.  Excluded: totals above 65536 words (the recorded finding D12, judged by C16) and
\* an FCI in the wrong kind of feedback packet (the view has no such FCI to compare with).
RtCtx(ev) == /\ IsImageSrc(ev) /\ ~IsNone(bld.cfg) /\ ~IsNone(wr) /\ IsOk(wr.res)
             /\ ~TooBig(bld.cfg) /\ ~Conservative(bld.cfg)
             /\ bld.cfg.kind \in {"tfb", "pfb"} => FciRules(bld.cfg.kind, bld.cfg.fci) = {}

\* a raw / third-party member that impersonates a built-in packet type need not parse as that type
\* (e.g. UnknownBuilder(type 200) with a 4-byte body is not a sender report): the parse-back clause
\* of C14 is stated for members that parse on their own
LeafParses(leaf) ==
    CASE leaf.kind = "unk"    -> leaf.type \notin 200..206
      [] leaf.kind = "custom" -> leaf.pt \notin 200..206 /\ Size(leaf) >= leaf.min
      [] OTHER -> TRUE

\* the tiling of a compound input: computed, or for very long inputs a generator hint VALIDATED in one pass
TilingFor(ev) ==
    IF Has(ev, "hint")
    THEN IF IsTilingWitness(ev.b, ev.hint) THEN ev.hint
         ELSE Assert(FALSE, "TOOL-ERROR: invalid tiling hint")
    ELSE Tiling(ev.b)

\* ---- conformance of one logged event in the current state
ParseEvConf(ev) ==
    /\ NoPanic(ev)
    /\ CASE ev.kind \in PacketKinds \cup {"unknown", "rb"} -> TypedConf(ev.kind, ev.b, ev.res, 0)
         [] ev.kind = "packet" -> PacketConf(ev.b, ev.res, None, 0)
         [] ev.kind \in FciTypes -> FciDirectConf(ev.kind, ev.b, ev.res)
         [] ev.kind = "custom" -> CustomConf(ev.fam, ev.b, ev.res)
    \* round trip: the image just written from bld parses back to bld's configuration
    /\ (RtCtx(ev) /\ ev.kind \in PacketKinds /\ ev.kind = bld.cfg.kind /\ P(RoundTripProp(ev.kind))) =>
          /\ ev.b = img
          /\ IsOk(ev.res)
          /\ RoundTripOk(bld.cfg, ev.b, ev.res.view, 0)
    \* independent encoder: the input is the SPECIFICATION's image of the current configuration (bytes that never
    \* went through the crate's writer; the claim is validated, not trusted): always accepted, same fields (C09)
    /\ (Has(ev, "enc") /\ ~IsNone(bld.cfg) /\ ev.kind \in PacketKinds /\ ev.kind = bld.cfg.kind
           /\ (P("C09") \/ P(RoundTripProp(ev.kind)))) =>
          /\ Assert(Accepts(bld.cfg) /\ IsImage(bld.cfg, ev.b), "TOOL-ERROR: enc event whose bytes are not the image of the configuration")
          /\ IsOk(ev.res)
          /\ RoundTripOk(bld.cfg, ev.b, ev.res.view, 0)
    /\ (RtCtx(ev) /\ ev.kind = "packet" /\ P("C19") /\ bld.cfg.kind \in {"unk", "custom"}) =>
          LET pt == IF bld.cfg.kind = "unk" THEN bld.cfg.type ELSE bld.cfg.pt
          IN  /\ ev.b = img
              /\ (pt \notin 200..206 /\ (bld.cfg.kind = "unk" \/ Size(bld.cfg) >= bld.cfg.min)) =>
                    /\ IsOk(ev.res)
                    /\ ev.res.view.variant = "unknown"
                    /\ ev.res.view.inner.data.o = 0 /\ ev.res.view.inner.data.n = Len(img)
    /\ (RtCtx(ev) /\ ev.kind = "custom" /\ P("C19") /\ bld.cfg.kind = "custom") =>
          LET d == ev.res.direct
              c == bld.cfg
              fix == IF c.has_ssrc THEN 8 ELSE 4
          IN  /\ ev.b = img
              /\ (Len(img) >= c.min) =>
                    /\ IsOk(d) /\ ev.res.via_packet = d /\ ev.res.via_unknown = d
                    /\ d.view.hdr.count = c.count /\ d.view.hdr.padding = PadView(c.padding) /\ d.view.hdr.type = c.pt
                    /\ c.has_ssrc => d.view.ssrc = c.ssrc
                    /\ d.view.payload.o = fix /\ Slice(img, fix, d.view.payload.n) = c.payload

ParseAllConf(ev) ==
    /\ NoPanic(ev)
    /\ PacketConf(ev.b, ev.res, ev.typed, 0)
    /\ \A k \in PacketKinds \cup {"unknown"} : TypedConf(k, ev.b, ev.typed[k], 0)

ParsePadConf(ev) ==
    /\ ev.padded = Pad(ev.b, ev.n)         \* the harness built the padded string: validated, not trusted
    /\ NoPanic(ev)
    /\ PadPairConf(ev.kind, ev.b, ev.n, ev.padded, ev.res, ev.res_padded)

StandaloneCfg(ev) == IF ev.op = "item_write" THEN [kind |-> "item", item |-> ItemCfg(ev.item)]
                     ELSE [kind |-> "chunk", chunk |-> ChunkCfg(ev.chunk)]
\* the standalone SDES item / chunk writers have no public size call: judged against the image directly
StandaloneConf(ev) ==
    LET c == StandaloneCfg(ev)
        n == Size(c)
    IN  /\ (P("C06") \/ P("C01")) => ~IsPanic(ev.res)
        /\ (P("C06") \/ P("C16")) =>
              IF Accepts(c)
              THEN IF ev.len >= n THEN IsOk(ev.res) /\ ev.res.n = n
                   ELSE IsErr(ev.res) /\ AsErr(ev.res) = Err("OutputTooSmall", << n >>)
              ELSE IsErr(ev.res) /\ WriteErrAllowed(c, AsErr(ev.res))
        /\ WriteConf(c, None, None, ev.len, ev.fill, ev.res, ev.out)

Conf(ev) ==
    CASE ev.op \in {"reset", "call", "wrap", "nack_iter"} -> TRUE
      [] ev.op = "calc_size"   -> CalcSizeConf(bld.cfg, ev.res)
      [] ev.op = "write_into"  -> /\ Len(ev.out) = ev.len
                                  /\ WriteConf(bld.cfg, ann, wr, ev.len, ev.fill, ev.res, ev.out)
      [] ev.op = "write_twice" -> /\ Len(ev.out) = ev.len /\ Len(ev.out1) = ev.len
                                  /\ WriteConf(bld.cfg, ann, None, ev.len, 0, ev.res, ev.out)
                                  /\ WriteConf(bld.cfg, ann, [L |-> ev.len, fill |-> 0, res |-> ev.res, out |-> ev.out, same |-> TRUE],
                                               ev.len, 1, ev.res1, ev.out1)
      \* write_into_unchecked into exactly the announced size, after ANOTHER builder was sized in between
      [] ev.op = "write_unchecked" -> /\ Len(ev.out) = ev.len
                                      /\ WriteConf(bld.cfg, None, None, ev.len, ev.fill, ev.res, ev.out)
                                      /\ (P("C06") \/ P("C07") \/ P("C20") \/ P("C14") \/ P("C19") \/ P("C17")) =>
                                            ((Accepts(bld.cfg) /\ ~Conservative(bld.cfg)) =>
                                                (ev.len = Size(bld.cfg) /\ IsOk(ev.res) /\ ev.res.n = ev.len))
      [] ev.op = "get_padding" -> GetPaddingConf(bld.cfg, ev.res)
      [] ev.op \in {"item_write", "chunk_write"} -> StandaloneConf(ev)
      [] ev.op = "parse"       -> ParseEvConf(ev)
      [] ev.op = "parse_all"   -> ParseAllConf(ev)
      [] ev.op = "parse_pad"   -> ParsePadConf(ev)
      [] ev.op = "cparse"      ->
            LET tl == TilingFor(ev)
            IN  /\ CParseConf(ev.b, ev.res, tl)
                \* the iterator driven in other ways (nth, skip, step_by, two at once) yields the same sequence
                /\ ((P("C01") \/ P("C11") \/ P("C14") \/ P("C19")) /\ IsOk(ev.res)) =>
                      /\ ~Has(ev, "alt_panic")
                      /\ Has(ev, "alt") =>
                            /\ AltOk(ev.alt_seq, ev.alt)
                            /\ Len(ev.alt_seq) <= Len(tl.tiles)
                            \* iteration runs to the last tile unless an item failed
                            /\ (Len(ev.alt_seq) = Len(tl.tiles) \/ (ev.alt_seq # <<>> /\ ev.alt_seq[Len(ev.alt_seq)][1] = 0))
                            /\ \A i \in 1..Len(ev.alt_seq) : ev.alt_seq[i][1] = 1 => ev.alt_seq[i][3] = tl.tiles[i][2]
                \* C14 / C19: the image of a compound with at least one leaf packet parses as a compound
                /\ ((P("C14") \/ P("C19")) /\ RtCtx(ev) /\ bld.cfg.kind = "compound" /\ Leaves(bld.cfg) # <<>>) =>
                      (ev.b = img /\ IsOk(ev.res))
      \* a "lean" next() records only none / some(ok) / some(err): the control part is judged, the content is not
      [] ev.op = "cnext"       -> IF ~cit.valid THEN ev.res.t = "closed"
                                  ELSE IF Has(ev, "lean") THEN CNextCtl(cit, ev.res) /\ NoPanic(ev)
                                  ELSE CNextConf(cit, ev)
      [] ev.op = "nack_open"   -> (P("C01") \/ P("C15")) => IsOk(ev.res)
      [] ev.op = "nack_next"   -> NackNextConf(nit.its[ev.it + 1], ev.res)
      [] ev.op = "nack_pair"   -> (P("C01") \/ P("C15")) =>
                                     (IsOk(ev.res) /\ ev.res.a = DecNack(ev.a) /\ ev.res.b = DecNack(ev.b))
      [] ev.op = "check_padding" -> CheckPaddingConf(ev.p, ev.res)
      [] ev.op = "write_header"  -> WriteHeaderConf(Family[ev.fam + 1][1], ev.p, ev.cnt, ev.len, ev.hlen, ev.fill, ev.res, ev.out)
      [] ev.op = "write_padding" -> WritePaddingConf(ev.p, ev.len, ev.fill, ev.res, ev.out)
      [] ev.op = "parse_helpers" -> ParseHelpersConf(ev.b, ev.res, ev.panics)

\* ---- effect of one event on the abstract state
Update(ev) ==
    CASE ev.op = "reset" -> ResetState
      [] ev.op = "call" ->
            /\ bld' = [cfg |-> IF ev.c.c = "new" THEN NewCfg(ev.kind, ev.c) ELSE ApplyCall(bld.cfg, ev.c)]
            /\ ann' = None /\ wr' = None
            /\ UNCHANGED << img, cit, nit >>
      [] ev.op = "wrap" ->
            \* PacketBuilder::from has no abstract effect; a one-member compound is the compound of that member
            /\ bld' = [cfg |-> IF ev.how = "compound1" THEN [kind |-> "compound", members |-> << bld.cfg >>] ELSE bld.cfg]
            /\ ann' = None /\ wr' = None
            /\ UNCHANGED << img, cit, nit >>
      [] ev.op = "calc_size" -> ann' = ev.res /\ UNCHANGED << bld, wr, img, cit, nit >>
      [] ev.op = "write_into" ->
            /\ wr' = [L |-> ev.len, fill |-> ev.fill, res |-> ev.res, out |-> ev.out, same |-> FALSE]
            /\ img' = IF IsOk(ev.res) /\ ev.res.n <= Len(ev.out) THEN SubSeq(ev.out, 1, ev.res.n) ELSE img
            /\ UNCHANGED << bld, ann, cit, nit >>
      [] ev.op = "write_unchecked" ->
            /\ wr' = [L |-> ev.len, fill |-> ev.fill, res |-> ev.res, out |-> ev.out, same |-> FALSE]
            /\ img' = IF IsOk(ev.res) /\ ev.res.n <= Len(ev.out) THEN SubSeq(ev.out, 1, ev.res.n) ELSE img
            /\ UNCHANGED << bld, ann, cit, nit >>
      [] ev.op = "write_twice" ->
            /\ wr' = [L |-> ev.len, fill |-> 0, res |-> ev.res, out |-> ev.out, same |-> FALSE]
            /\ img' = IF IsOk(ev.res) /\ ev.res.n <= Len(ev.out) THEN SubSeq(ev.out, 1, ev.res.n) ELSE img
            /\ UNCHANGED << bld, ann, cit, nit >>
      [] ev.op = "cparse" ->
            /\ cit' = CitAfterParse(ev.b, ev.res,
                         IF RtCtx(ev) /\ bld.cfg.kind = "compound" /\ ev.b = img
                            /\ \A i \in 1..Len(Leaves(bld.cfg)) : LeafParses(Leaves(bld.cfg)[i])
                         THEN Leaves(bld.cfg) ELSE <<>>, TilingFor(ev))
            /\ UNCHANGED << bld, ann, wr, img, nit >>
      [] ev.op = "cnext" -> cit' = CitAfterNext(cit, ev.res) /\ UNCHANGED << bld, ann, wr, img, nit >>
      [] ev.op = "nack_open" -> nit' = [ws |-> NackWordsOf(ev.b), its |-> <<>>] /\ UNCHANGED << bld, ann, wr, img, cit >>
      [] ev.op = "nack_iter" ->
            /\ nit' = [nit EXCEPT !.its = [i \in 1..Max2(Len(nit.its), ev.it + 1) |->
                                             IF i = ev.it + 1 THEN [ws |-> nit.ws, w |-> 1, k |-> 0]
                                             ELSE IF i <= Len(nit.its) THEN nit.its[i] ELSE [ws |-> <<>>, w |-> 1, k |-> 0]]]
            /\ UNCHANGED << bld, ann, wr, img, cit >>
      [] ev.op = "nack_next" ->
            /\ LET it == nit.its[ev.it + 1]
                   s  == NackStep(it.ws, it.w, it.k)
               IN  nit' = [nit EXCEPT !.its[ev.it + 1] = [it EXCEPT !.w = s.w, !.k = s.k]]
            /\ UNCHANGED << bld, ann, wr, img, cit >>
      [] OTHER -> UNCHANGED vars

Step(ev) == Conf(ev) /\ Update(ev)

=============================================================================
