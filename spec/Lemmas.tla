------------------------------- MODULE Lemmas -------------------------------
(***************************************************************************)
(* Unbounded arithmetic facts the wire model relies on, proved with TLAPS  *)
(* (tlapm, SMT back end).  TLC checks the same facts over bounded domains  *)
(* as invariants of MC_Writer / MC_Bytes / MC_Nack; here they hold for ALL *)
(* naturals.  The operators are restated (TLAPS does not read the          *)
(* CommunityModules); WireTest.tla ties each restated operator to the one   *)
(* the specification uses (ASSUME LPad4(n) = Pad4(n) ... over a range).     *)
(***************************************************************************)
EXTENDS Integers

LPad4(n) == ((n + 3) \div 4) * 4

\* C06 / C07: sizes are multiples of 4, padding to a word boundary adds 0..3 bytes
THEOREM Pad4Props == \A n \in Nat : /\ LPad4(n) % 4 = 0
                                     /\ n <= LPad4(n)
                                     /\ LPad4(n) < n + 4
                                     /\ LPad4(n) \in Nat
  BY DEF LPad4

THEOREM Pad4Fix == \A n \in Nat : n % 4 = 0 => LPad4(n) = n
  BY DEF LPad4

THEOREM Pad4Idem == \A n \in Nat : LPad4(LPad4(n)) = LPad4(n)
  BY DEF LPad4

THEOREM Pad4Mono == \A m, n \in Nat : m <= n => LPad4(m) <= LPad4(n)
  BY DEF LPad4

\* C07 / C08 / C18: the length field (total/4 - 1) determines the total, and 4*(field+1) is the total
LenField(t) == t \div 4 - 1
HdrLen(f)   == 4 * (f + 1)
THEOREM LenFieldRoundTrip == \A t \in Nat : (t % 4 = 0 /\ t >= 4) => (HdrLen(LenField(t)) = t /\ LenField(t) \in Nat)
  BY DEF LenField, HdrLen
THEOREM HdrLenRoundTrip == \A f \in Nat : LenField(HdrLen(f)) = f /\ HdrLen(f) % 4 = 0 /\ HdrLen(f) >= 4
  BY DEF LenField, HdrLen
\* the 16-bit length field covers exactly the totals 4 .. 262144 (65536 words): C16's last rule
THEOREM LenFieldRange == \A t \in Nat : (t % 4 = 0 /\ t >= 4) => (LenField(t) <= 65535 <=> t <= 262144)
  BY DEF LenField

\* C13: adding n bytes of padding (n a multiple of 4) adds n/4 to the length field
LEMMA Div4 == \A c \in Nat : (4 * c) \div 4 = c
  OBVIOUS
THEOREM PadLenField == \A a, b \in Nat : a >= 1 => LenField(4 * a + 4 * b) = LenField(4 * a) + b
  <1> TAKE a, b \in Nat
  <1>1. 4 * a + 4 * b = 4 * (a + b) /\ a + b \in Nat
    OBVIOUS
  <1>2. (4 * (a + b)) \div 4 = a + b /\ (4 * a) \div 4 = a
    BY <1>1, Div4
  <1> QED BY <1>1, <1>2 DEF LenField

\* C14: a concatenation of whole packets is a whole number of words
THEOREM SumMult4 == \A a, b \in Nat : (a % 4 = 0 /\ b % 4 = 0) => (a + b) % 4 = 0
  OBVIOUS

\* big-endian 16-bit split / join (Bytes!BE16, Bytes!U16At)
THEOREM BE16RoundTrip == \A x \in 0..65535 : /\ (x \div 256) \in 0..255
                                              /\ (x % 256) \in 0..255
                                              /\ (x \div 256) * 256 + (x % 256) = x
  OBVIOUS
THEOREM U16Join == \A h, l \in 0..255 : /\ (h * 256 + l) \in 0..65535
                                          /\ (h * 256 + l) \div 256 = h
                                          /\ (h * 256 + l) % 256 = l
  OBVIOUS

\* C09 / C02: the 24-bit cumulative-lost field and the fraction byte share one word without interfering
THEOREM Cum24 == \A f \in 0..255, c \in 0..16777215 :
                    /\ (f * 16777216 + c) \div 16777216 = f
                    /\ (f * 16777216 + c) % 16777216 = c
  OBVIOUS

\* C05 / C15: one NACK word never names a sequence number twice (PID, PID+1 .. PID+16 mod 2^16 are distinct)
THEOREM NackWordDistinct == \A p \in 0..65535, j, k \in 0..16 : j # k => (p + j) % 65536 # (p + k) % 65536
  OBVIOUS

\* C15 / C01: the iterator's progress measure 18 * (words left) - k.  Staying in a word and moving to a
\* later bit, or moving to the next word, both strictly decrease it; it is never negative.
Measure(L, w, k) == 18 * (L + 1 - w) - k
THEOREM MeasureSameWord == \A L, w \in Nat, k, j \in 0..17 : (j >= k /\ j <= 16) => Measure(L, w, j + 1) < Measure(L, w, k)
  BY DEF Measure
THEOREM MeasureNextWord == \A L, w \in Nat, k \in 0..17 : Measure(L, w + 1, 1) < Measure(L, w, k)
  BY DEF Measure
THEOREM MeasureNonNeg == \A L, w \in Nat, k \in 0..17 : w <= L => Measure(L, w, k) >= 1
  BY DEF Measure

\* C10 / C03: an SDES chunk (4-byte SSRC, items, at least one terminating zero, zero fill) is a whole
\* number of words and carries 1..4 zero bytes after its items
ChunkLen(items) == LPad4(4 + items + 1)
THEOREM ChunkLenProps == \A i \in Nat : /\ ChunkLen(i) % 4 = 0
                                         /\ ChunkLen(i) - (4 + i) >= 1
                                         /\ ChunkLen(i) - (4 + i) <= 4
  BY DEF ChunkLen, LPad4

\* C04: a BYE reason of r bytes occupies Pad4(1 + r) bytes
THEOREM ReasonLen == \A r \in 0..255 : LPad4(1 + r) % 4 = 0 /\ LPad4(1 + r) >= 1 + r /\ LPad4(1 + r) <= 256
  BY DEF LPad4

\* C05 / C06: the RPSI FCI (2 header bytes + bit string of d bytes) is padded to a word; the number of
\* padding BITS announced is 8 * fill + ignored and fits in 8 bits
RpsiFill(d) == LPad4(2 + d) - (2 + d)
THEOREM RpsiPadBits == \A d \in Nat, ign \in 0..8 : /\ RpsiFill(d) \in 0..3
                                                     /\ 8 * RpsiFill(d) + ign <= 32
                                                     /\ (2 + d + RpsiFill(d)) % 4 = 0
  BY DEF RpsiFill, LPad4
=============================================================================
