-------------------------------- MODULE Wire --------------------------------
(***************************************************************************)
(* The RTCP wire format of RFC 3550 (SR, RR, SDES, BYE, APP), RFC 4585     *)
(* (transport / payload feedback, generic NACK, PLI, SLI, RPSI) and        *)
(* RFC 5104 (FIR), written from the RFC text as a declarative sequence     *)
(* algebra over Seq(0..255).  This module is the independent oracle of     *)
(* the verification: encoders (images of configurations), decoders (field  *)
(* readers at RFC offsets, the SDES tokeniser, FCI decode laws), framing,   *)
(* builder acceptance rules, padding and compound tiling.  Nothing here    *)
(* is copied from the implementation's offset-and-cursor arithmetic.       *)
(*                                                                         *)
(* Conventions: offsets written "off" are 0-based as in the RFC pictures;  *)
(* TLA+ sequence indices are 1-based.  32-bit values are <<hi16, lo16>>.    *)
(***************************************************************************)
EXTENDS Bytes, FiniteSetsExt, TLC

PT_SR == 200   PT_RR == 201   PT_SDES == 202   PT_BYE == 203
PT_APP == 204  PT_TFB == 205  PT_PFB == 206

PacketKinds == {"sr", "rr", "sdes", "bye", "app", "tfb", "pfb"}

PTOf(kind) == CASE kind = "sr" -> 200 [] kind = "rr" -> 201 [] kind = "sdes" -> 202
                [] kind = "bye" -> 203 [] kind = "app" -> 204 [] kind = "tfb" -> 205
                [] kind = "pfb" -> 206 [] kind = "rb" -> -2 [] OTHER -> -1
\* -1: a parser with a common header but no packet type of its own (unknown, generic); -2: no header at all

\* which variant the generic parser must select for packet type byte pt (C12)
Variant(pt) == CASE pt = 200 -> "sr" [] pt = 201 -> "rr" [] pt = 202 -> "sdes"
                 [] pt = 203 -> "bye" [] pt = 204 -> "app" [] pt = 205 -> "tfb"
                 [] pt = 206 -> "pfb" [] OTHER -> "unknown"

\* minimum packet size of each parser (RFC fixed parts)
MinLen(kind) == CASE kind = "sr" -> 28 [] kind = "rr" -> 8 [] kind = "sdes" -> 4
                  [] kind = "bye" -> 4 [] kind = "app" -> 12 [] kind = "tfb" -> 12
                  [] kind = "pfb" -> 12 [] kind = "unknown" -> 4 [] kind = "packet" -> 4
                  [] kind = "rb" -> 24 [] OTHER -> 0

-----------------------------------------------------------------------------
(* Common header (RFC 3550 s.6.4.1): V=2 | P | count(5) | PT(8) | length(16) *)

Header(p, cnt, pt, total) == << 128 + (IF p THEN 32 ELSE 0) + cnt, pt >> \o BE16(total \div 4 - 1)

\* trailing padding: zeros ending in the count of padding bytes (RFC 3550 s.6.4.1, P bit)
PadTrailer(p) == IF p = 0 THEN <<>> ELSE Zeros(p - 1) \o << p >>

Packet(p, cnt, pt, body) == Header(p > 0, cnt, pt, 4 + Len(body) + p) \o body \o PadTrailer(p)

Version(b) == b[1] \div 64
PBit(b)    == (b[1] \div 32) % 2 = 1
Count(b)   == b[1] % 32
PType(b)   == b[2]
HdrLen(b)  == 4 * (U16At(b, 3) + 1)
PadCount(b) == IF PBit(b) THEN b[Len(b)] ELSE 0

\* C08: exactly and consistently framed.  pt = -1 means "any type" (unknown / generic)
Framed(min, pt, b) ==
    /\ Len(b) >= 4 /\ Len(b) >= min
    /\ Version(b) = 2
    /\ (pt = -1 \/ PType(b) = pt)
    /\ HdrLen(b) = Len(b)
    /\ (PBit(b) => b[Len(b)] # 0)

\* what the unknown-packet parser guarantees: size, version, length field
FramedUnknown(b) == Len(b) >= 4 /\ Version(b) = 2 /\ HdrLen(b) = Len(b)

\* the body is large enough for what the count field announces
CountBodyFits(kind, b) ==
    CASE kind = "sr"  -> 28 + 24 * Count(b) <= Len(b)
      [] kind = "rr"  -> 8 + 24 * Count(b) <= Len(b)
      [] kind = "bye" -> 4 + 4 * Count(b) <= Len(b)
      [] OTHER -> TRUE

\* padding is "regular" w.r.t. a fixed part of size fixed: a multiple of 4 that fits behind it
RegularPad(b, fixed) == (~PBit(b)) \/ (PadCount(b) % 4 = 0 /\ PadCount(b) > 0 /\ fixed + PadCount(b) <= Len(b))

\* C13: add RFC 3550 padding of n bytes to an unpadded packet
Pad(b, n) ==
    IF Len(b) < 4 \/ PBit(b) THEN b        \* not a packet / already padded: left alone
    ELSE LET words == (U16At(b, 3) + n \div 4) % 65536
         IN  << b[1] + 32, b[2] >> \o BE16(words) \o SubSeq(b, 5, Len(b)) \o PadTrailer(n)

-----------------------------------------------------------------------------
(* Parse errors (C18).  An error is a record [e |-> name, f |-> <<payload ints>>]. *)

Err(e, f) == [e |-> e, f |-> f]

\* the generic truthfulness clauses; own = the parser's own packet type (-1: none)
Truthful(own, b, err) ==
    CASE err.e = "UnsupportedVersion" ->
            Len(b) >= 1 /\ err.f = << Version(b) >> /\ Version(b) # 2
      [] err.e = "PacketTypeMismatch" ->
            Len(b) >= 2 /\ own >= 0 /\ err.f = << PType(b), own >> /\ PType(b) # own
      [] err.e = "Truncated" -> err.f[1] > err.f[2]
      [] err.e = "TooLarge"  -> err.f[1] < err.f[2]
      [] OTHER -> TRUE

\* the mandated errors: {} when the statement mandates nothing specific
MandatedErr(min, own, b) ==
    IF Len(b) < min THEN { Err("Truncated", << min, Len(b) >>) }
    ELSE IF own # -2 /\ Len(b) >= 4 /\ Version(b) = 2 /\ (own = -1 \/ PType(b) = own) /\ HdrLen(b) # Len(b)
         THEN { Err(IF HdrLen(b) > Len(b) THEN "Truncated" ELSE "TooLarge", << HdrLen(b), Len(b) >>) }
    ELSE {}

ErrAllowed(min, own, b, err) ==
    /\ Truthful(own, b, err)
    /\ LET m == MandatedErr(min, own, b) IN m = {} \/ err \in m

-----------------------------------------------------------------------------
(* Encoders: the RFC image of a configuration.                              *)

\* report block, RFC 3550 s.6.4.1: SSRC | fraction(8) cumulative(24) | ext seq | jitter | LSR | DLSR
EncRB(r) == BE32(r.ssrc) \o << r.fraction, r.cumulative[1] % 256 >> \o BE16(r.cumulative[2])
            \o BE32(r.ext_seq) \o BE32(r.jitter) \o BE32(r.lsr) \o BE32(r.dlsr)
EncBlocks(bs) == FlatFixed([i \in 1..Len(bs) |-> EncRB(bs[i])], 24)

EncSR(c) == Packet(c.padding, Len(c.blocks), PT_SR,
                   BE32(c.ssrc) \o BE64(c.ntp) \o BE32(c.rtp) \o BE32(c.pkts) \o BE32(c.octets)
                   \o EncBlocks(c.blocks))
EncRR(c) == Packet(c.padding, Len(c.blocks), PT_RR, BE32(c.ssrc) \o EncBlocks(c.blocks))

\* SDES item: type | length | text ; PRIV (8): length covers prefix-length byte + prefix + value
EncItem(it) ==
    IF it.type = 8
    THEN << 8, Len(it.prefix) + 1 + Len(it.value), Len(it.prefix) >> \o it.prefix \o it.value
    ELSE << it.type, Len(it.value) >> \o it.value
\* chunk: SSRC, items, a null terminator, zero fill to the next 32-bit boundary
EncChunk(c) ==
    LET raw == BE32(c.ssrc) \o Flat([i \in 1..Len(c.items) |-> EncItem(c.items[i])]) \o << 0 >>
    IN  raw \o Zeros(Pad4(Len(raw)) - Len(raw))
EncSdes(c) == Packet(c.padding, Len(c.chunks), PT_SDES, Flat([i \in 1..Len(c.chunks) |-> EncChunk(c.chunks[i])]))

\* BYE: sources, optional length-prefixed reason zero-filled to 32 bits
EncBye(c) ==
    LET r    == IF c.reason = <<>> THEN <<>> ELSE << Len(c.reason) >> \o c.reason
        rpad == r \o Zeros(Pad4(Len(r)) - Len(r))
    IN  Packet(c.padding, Len(c.sources), PT_BYE,
               FlatFixed([i \in 1..Len(c.sources) |-> BE32(c.sources[i])], 4) \o rpad)

\* APP: SSRC, 4-byte name (zero filled), data
EncApp(c) == Packet(c.padding, c.subtype, PT_APP,
                    BE32(c.ssrc) \o c.name \o Zeros(4 - Len(c.name)) \o c.data)

\* raw packet of any type
EncUnknown(c) == Packet(c.padding, c.count, c.type, c.data)

\* a third-party packet defined with the public helpers: header, SSRC, payload, trailer
EncCustom(c) == Packet(c.padding, c.count, c.pt, (IF c.has_ssrc THEN BE32(c.ssrc) ELSE <<>>) \o c.payload)

-----------------------------------------------------------------------------
(* feedback control information *)
\* generic NACK (RFC 4585 s.6.2.1): PID(16) BLP(16); bit k-1 of BLP set <=> PID+k lost
RECURSIVE NackGreedy(_, _)
NackGreedy(s, i) ==
    IF i > Len(s) THEN <<>>
    ELSE LET base  == s[i]
             inwin == {j \in (i + 1)..Min2(Len(s), i + 16) : s[j] - base <= 16}
             blp   == SumSet({Pow2(s[j] - base - 1) : j \in inwin})
         IN  << << base, blp >> >> \o NackGreedy(s, i + 1 + Cardinality(inwin))
NackWordsRec(set) == NackGreedy(SetToSortSeq(set, <), 1)
\* The same cover as ONE left-to-right pass (TLC evaluates the recursive form in time quadratic in the number of words,
\* a minute for the 3856 words of a full sequence space; the fold takes a second).  A word is open while elements
\* fall within 16 of its base; the next element further away closes it and opens the next.  WireTest and MC_Writer
\* check NackWords = NackWordsRec on their domains.
NackFoldStep(acc, x) ==
    IF acc.has /\ x - acc.base <= 16
    THEN [acc EXCEPT !.blp = @ + Pow2(x - acc.base - 1)]
    ELSE [has |-> TRUE, base |-> x, blp |-> 0,
          done |-> IF acc.has THEN Append(acc.done, << acc.base, acc.blp >>) ELSE acc.done]
NackWords(set) ==
    LET r == FoldLeft(NackFoldStep, [has |-> FALSE, base |-> 0, blp |-> 0, done |-> <<>>], SetToSortSeq(set, <))
    IN  IF r.has THEN Append(r.done, << r.base, r.blp >>) ELSE r.done
MinNackWords(set) == Len(NackWords(set))
EncNack(set) == LET ws == NackWords(set) IN FlatFixed([i \in 1..Len(ws) |-> BE16(ws[i][1]) \o BE16(ws[i][2])], 4)

DecNackWord(w) ==
    LET pid == U16At(w, 1)
        blp == U16At(w, 3)
    IN  << pid >> \o SelectSeq([k \in 1..16 |-> IF (blp \div Pow2(k - 1)) % 2 = 1 THEN (pid + k) % 65536 ELSE -1],
                              LAMBDA x : x >= 0)
DecNack(bytes) == LET ws == Words(bytes, 4) IN Flat([i \in 1..Len(ws) |-> DecNackWord(ws[i])])

StrictlyAscending(s) == \A i \in 1..(Len(s) - 1) : s[i] < s[i + 1]

\* any minimal, ascending encoding of the set is an acceptable NACK image (C07)
IsNackFci(bytes, set) ==
    /\ Len(bytes) % 4 = 0
    /\ Len(bytes) \div 4 = MinNackWords(set)
    /\ LET dec == DecNack(bytes) IN StrictlyAscending(dec) /\ ToSet(dec) = set

\* FIR (RFC 5104 s.4.3.1): SSRC(32) seq(8) reserved(24) ; map = sequence of <<ssrc, seq>>, unique SSRCs
EncFirEntry(e) == BE32(e[1]) \o << e[2], 0, 0, 0 >>
EncFir(map) == FlatFixed([i \in 1..Len(map) |-> EncFirEntry(map[i])], 8)
DecFir(bytes) == LET ws == Words(bytes, 8) IN [i \in 1..Len(ws) |-> << U32At(ws[i], 1), ws[i][5] >>]
IsFirFci(bytes, map) ==
    /\ Len(bytes) = 8 * Len(map)
    /\ SameBag(Words(bytes, 8), [i \in 1..Len(map) |-> EncFirEntry(map[i])])

\* SLI (RFC 4585 s.6.3.2): first(13) number(13) picture id(6)
EncSliEntry(e) == << e[1] \div 32, (e[1] % 32) * 8 + e[2] \div 1024, (e[2] \div 4) % 256, (e[2] % 4) * 64 + e[3] >>
EncSli(list) == FlatFixed([i \in 1..Len(list) |-> EncSliEntry(list[i])], 4)
DecSliWord(w) == << w[1] * 32 + w[2] \div 8, (w[2] % 8) * 1024 + w[3] * 4 + w[4] \div 64, w[4] % 64 >>
DecSli(bytes) == LET ws == Words(bytes, 4) IN [i \in 1..Len(ws) |-> DecSliWord(ws[i])]

\* RPSI (RFC 4585 s.6.3.3): PB(8) | 0 PT(7) | native bit string | zero padding to 32 bits.
\* PB counts the padding bits: the ignored trailing bits of the last byte plus the fill bytes.
EncRpsi(r) ==
    LET n    == Len(r.data)
        tot  == Pad4(2 + n)
        body == IF n = 0 THEN <<>>
                ELSE SubSeq(r.data, 1, n - 1) \o << ClearLow(r.data[n], r.bits) >>
    IN  << 8 * (tot - 2 - n) + r.bits, r.pt >> \o body \o Zeros(tot - 2 - n)

FciFormat(fci) == CASE fci.f = "nack" -> 1 [] fci.f = "pli" -> 1 [] fci.f = "sli" -> 2
                    [] fci.f = "rpsi" -> 3 [] fci.f = "fir" -> 4
FciKind(f)   == IF f = "nack" THEN "tfb" ELSE "pfb"
FciFmtOf(f)  == CASE f = "nack" -> 1 [] f = "pli" -> 1 [] f = "sli" -> 2 [] f = "rpsi" -> 3 [] f = "fir" -> 4
FciTypes == {"nack", "pli", "sli", "rpsi", "fir"}

EncFci(fci) == CASE fci.f = "nack" -> EncNack(fci.set)
                 [] fci.f = "fir"  -> EncFir(fci.map)
                 [] fci.f = "sli"  -> EncSli(fci.list)
                 [] fci.f = "rpsi" -> EncRpsi(fci)
                 [] fci.f = "pli"  -> <<>>
IsFci(fci, bytes) == CASE fci.f = "nack" -> IsNackFci(bytes, fci.set)
                       [] fci.f = "fir"  -> IsFirFci(bytes, fci.map)
                       [] OTHER -> bytes = EncFci(fci)

EncFb(c) == Packet(c.padding, FciFormat(c.fci), PTOf(c.kind), BE32(c.sender) \o BE32(c.media) \o EncFci(c.fci))

-----------------------------------------------------------------------------
(* images, sizes *)
RECURSIVE Image(_)
Image(c) ==
    CASE c.kind = "sr"   -> EncSR(c)
      [] c.kind = "rr"   -> EncRR(c)
      [] c.kind = "sdes" -> EncSdes(c)
      [] c.kind = "bye"  -> EncBye(c)
      [] c.kind = "app"  -> EncApp(c)
      [] c.kind = "unk"  -> EncUnknown(c)
      [] c.kind \in {"tfb", "pfb"} -> EncFb(c)
      [] c.kind = "custom" -> EncCustom(c)
      [] c.kind = "item"  -> EncItem(c.item)
      [] c.kind = "chunk" -> EncChunk(c.chunk)
      [] c.kind = "compound" -> Flat([i \in 1..Len(c.members) |-> Image(c.members[i])])

\* the canonical image (greedy NACK, FIR in insertion order); Size is DEFINED from the image
Size(c) == Len(Image(c))

HasChoice(c) == c.kind \in {"tfb", "pfb"} /\ c.fci.f \in {"nack", "fir"}

RECURSIVE HasChoiceDeep(_)
HasChoiceDeep(c) == IF c.kind = "compound" THEN \E i \in 1..Len(c.members) : HasChoiceDeep(c.members[i]) ELSE HasChoice(c)
RECURSIVE IsImage(_, _)
RECURSIVE IsImageList(_, _, _)
IsImage(c, bytes) ==
    IF HasChoice(c) THEN
        LET n == Len(bytes)
            p == c.padding
        IN  /\ n >= 12 + p
            /\ SubSeq(bytes, 1, 12) = Header(p > 0, FciFormat(c.fci), PTOf(c.kind), n) \o BE32(c.sender) \o BE32(c.media)
            /\ IsFci(c.fci, SubSeq(bytes, 13, n - p))
            /\ SubSeq(bytes, n - p + 1, n) = PadTrailer(p)
    ELSE IF c.kind = "compound"
         THEN IF HasChoiceDeep(c) THEN IsImageList(c.members, 1, bytes)
              ELSE bytes = Image(c)          \* no member leaves the writer a choice: one image (linear, for very long lists)
    ELSE bytes = Image(c)
IsImageList(ms, i, bytes) ==
    IF i > Len(ms) THEN bytes = <<>>
    ELSE LET n == Size(ms[i])
         IN  /\ Len(bytes) >= n
             /\ IsImage(ms[i], SubSeq(bytes, 1, n))
             /\ IsImageList(ms, i + 1, SubSeq(bytes, n + 1, Len(bytes)))

\* the padding a writer "requests": for a compound, that of its last member (recursively)
RECURSIVE PaddingOf(_)
PaddingOf(c) ==
    IF c.kind = "compound"
    THEN IF c.members = <<>> THEN 0 ELSE PaddingOf(c.members[Len(c.members)])
    ELSE IF c.kind \in {"item", "chunk"} THEN 0 ELSE c.padding

\* leaves of a (possibly nested) compound, in order
RECURSIVE Leaves(_)
Leaves(c) == IF c.kind = "compound" THEN Flat([i \in 1..Len(c.members) |-> Leaves(c.members[i])]) ELSE << c >>

-----------------------------------------------------------------------------
(* Builder acceptance (C16): the rules a configuration can violate, each    *)
(* with the error that may report it.  -1 in a payload position = any.      *)

Rule(e, f) == [e |-> e, f |-> f]
MaxBytes == 262144          \* 65536 32-bit words: the 16-bit length field holds words - 1

PadRule(p) == IF p % 4 # 0 THEN { Rule("InvalidPadding", << p >>) } ELSE {}

BlockRules(bs) ==
    (IF Len(bs) > 31 THEN { Rule("TooManyReportBlocks", << Len(bs), 31 >>) } ELSE {})
    \cup { Rule("CumulativeLostTooLarge", << bs[i].cumulative[1], bs[i].cumulative[2], 255, 65535 >>) :
             i \in {j \in 1..Len(bs) : bs[j].cumulative[1] > 255} }

ItemRules(it) ==
    IF it.type = 8
    THEN IF Len(it.prefix) + Len(it.value) > 254
         THEN LET ls == { Len(it.value), Len(it.prefix), Len(it.prefix) + Len(it.value),
                          Len(it.prefix) + 1 + Len(it.value) }
              IN  { Rule("SdesValueTooLarge", << l, -1 >>) : l \in ls }
                  \cup { Rule("SdesPrivPrefixTooLarge", << l, -1 >>) : l \in ls }
         ELSE {}
    ELSE IF Len(it.value) > 255 THEN { Rule("SdesValueTooLarge", << Len(it.value), 255 >>) } ELSE {}

ChunkRules(ch) == UNION { ItemRules(ch.items[i]) : i \in 1..Len(ch.items) }

FciRules(kind, fci) ==
    (IF FciKind(fci.f) # kind THEN { Rule("FciWrongFeedbackPacketType", <<>>) } ELSE {})
    \cup (IF fci.f = "rpsi"
          THEN (IF fci.pt > 127 THEN { Rule("PayloadTypeInvalid", <<>>) } ELSE {})
               \cup (IF fci.bits > 8 \/ (fci.data = <<>> /\ fci.bits > 0)
                     THEN { Rule("PaddingBitsTooLarge", <<>>) } ELSE {})
          ELSE {})

RECURSIVE LocalRules(_)
LocalRules(c) ==
    CASE c.kind = "sr"   -> PadRule(c.padding) \cup BlockRules(c.blocks)
      [] c.kind = "rr"   -> PadRule(c.padding) \cup BlockRules(c.blocks)
      [] c.kind = "sdes" -> PadRule(c.padding)
                            \cup (IF Len(c.chunks) > 31 THEN { Rule("TooManySdesChunks", << Len(c.chunks), 31 >>) } ELSE {})
                            \cup UNION { ChunkRules(c.chunks[i]) : i \in 1..Len(c.chunks) }
      [] c.kind = "bye"  -> PadRule(c.padding)
                            \cup (IF Len(c.sources) > 31 THEN { Rule("TooManySources", << Len(c.sources), 31 >>) } ELSE {})
                            \cup (IF Len(c.reason) > 255 THEN { Rule("ReasonLenTooLarge", << Len(c.reason), 255 >>) } ELSE {})
      [] c.kind = "app"  -> PadRule(c.padding)
                            \cup (IF c.subtype > 31 THEN { Rule("AppSubtypeOutOfRange", << c.subtype, 31 >>) } ELSE {})
                            \cup (IF Len(c.name) > 4 \/ \E i \in 1..Len(c.name) : c.name[i] > 127
                                  THEN { Rule("InvalidName", <<>>) } ELSE {})
                            \cup (IF Len(c.data) % 4 # 0 THEN { Rule("DataLen32bitMultiple", << Len(c.data) >>) } ELSE {})
      [] c.kind = "unk"  -> PadRule(c.padding)
                            \cup (IF c.count > 31 THEN { Rule("CountOutOfRange", << c.count, 31 >>) } ELSE {})
                            \cup (IF Len(c.data) % 4 # 0 THEN { Rule("DataLen32bitMultiple", << Len(c.data) >>) } ELSE {})
      [] c.kind \in {"tfb", "pfb"} -> PadRule(c.padding) \cup FciRules(c.kind, c.fci)
      [] c.kind = "custom" -> PadRule(c.padding)      \* maxc: the MAX_COUNT the third-party type declares
                            \cup (IF c.count > c.maxc THEN { Rule("CountOutOfRange", << c.count, c.maxc >>) } ELSE {})
      [] c.kind = "item"  -> ItemRules(c.item)
      [] c.kind = "chunk" -> ChunkRules(c.chunk)
      [] c.kind = "compound" ->
            UNION { LocalRules(c.members[i]) : i \in 1..Len(c.members) }
            \cup (IF \E i \in 1..(Len(c.members) - 1) : PaddingOf(c.members[i]) > 0
                  THEN { Rule("NonLastCompoundPacketPadding", <<>>) } ELSE {})

\* total size above 65536 words cannot be represented (single packets only: a compound is a
\* concatenation of packets, each with its own length field)
RECURSIVE TooBig(_)
TooBig(c) ==
    IF c.kind = "compound" THEN \E i \in 1..Len(c.members) : TooBig(c.members[i])
    ELSE IF c.kind \in {"item", "chunk"} THEN FALSE
    ELSE LocalRules(c) = {} /\ Size(c) > MaxBytes

Accepts(c) == LocalRules(c) = {} /\ ~TooBig(c)

RuleMatches(r, err) ==
    /\ r.e = err.e
    /\ Len(r.f) = Len(err.f)
    /\ \A i \in 1..Len(r.f) : r.f[i] = -1 \/ r.f[i] = err.f[i]

\* the error names one of the violated rules with the offending value; the vocabulary has no
\* variant for "too big", so any error may report that rule
WriteErrAllowed(c, err) ==
    \/ \E r \in LocalRules(c) : RuleMatches(r, err)
    \/ (LocalRules(c) = {} /\ TooBig(c))

-----------------------------------------------------------------------------
(* Decoders: fields at the offsets the RFC assigns (C09).                    *)

DecRB(r) == [ ssrc |-> U32At(r, 1), fraction |-> r[5], cumulative |-> << r[6], U16At(r, 7) >>,
              ext_seq |-> U32At(r, 9), jitter |-> U32At(r, 13), lsr |-> U32At(r, 17), dlsr |-> U32At(r, 21) ]
DecBlocks(b, off, n) == [i \in 1..n |-> DecRB(Slice(b, off + 24 * (i - 1), 24))]

HdrView(b) == [ version |-> Version(b), type |-> PType(b), count |-> Count(b), subtype |-> Count(b),
                length |-> HdrLen(b), padding |-> IF PBit(b) THEN b[Len(b)] ELSE -1 ]

\* a slice is logged as [o |-> 0-based offset in the input (-1 if not inside the input), n |-> length]
Sl(o, n) == [o |-> o, n |-> n]

-----------------------------------------------------------------------------
(* SDES tokeniser *)
\* C10: the only left-to-right walk the RFC 3550 s.6.5 grammar admits.
ItemTok(b, q) ==       \* the item starting at 0-based offset q (already known to fit)
    LET t == b[q + 1]
        l == b[q + 2]
    IN  IF t = 8
        THEN LET pl == b[q + 3]
             IN  [ type |-> t, length |-> l, vo |-> q + 3 + pl, vn |-> l - 1 - pl, po |-> q + 3, pn |-> pl, plen |-> pl ]
        ELSE [ type |-> t, length |-> l, vo |-> q + 2, vn |-> l, po |-> -1, pn |-> 0, plen |-> -1 ]

RECURSIVE SdesItemsWalk(_, _, _, _)
SdesItemsWalk(b, q, end, acc) ==
    IF q >= end THEN [st |-> "noterm", items |-> acc, q |-> q]
    ELSE IF b[q + 1] = 0 THEN [st |-> "term", items |-> acc, q |-> q]
    ELSE IF q + 1 >= end THEN [st |-> "reject", items |-> acc, q |-> q]          \* no length byte
    ELSE LET t == b[q + 1]
             l == b[q + 2]
         IN  IF q + 2 + l > end THEN [st |-> "reject", items |-> acc, q |-> q]   \* item overruns the packet
             ELSE IF t = 8 /\ l = 0 THEN [st |-> "either", items |-> acc, q |-> q]  \* PRIV without prefix length
             ELSE IF t = 8 /\ b[q + 3] + 1 > l THEN [st |-> "reject", items |-> acc, q |-> q]  \* prefix overruns item
             ELSE SdesItemsWalk(b, q + 2 + l, end, Append(acc, ItemTok(b, q)))

\* Very long item lists: the recursive walk (Append per item) is super-quadratic in TLC.  A claimed token list
\* for the items starting at q (a hint, e.g. what an implementation reported) can be CHECKED in one pass - every
\* token is what the RFC reading gives at its offset, each item is complete and well-formed, consecutive items
\* are contiguous - and if it holds the walk resumes behind it.  A hint that does not check is ignored.
ItemStartOf(it) == IF it.type = 8 THEN it.po - 3 ELSE it.vo - 2
ItemsWitnessOk(b, q, end, its) ==
    /\ its # <<>>
    /\ ItemStartOf(its[1]) = q
    /\ \A i \in 1..Len(its) :
          LET st == ItemStartOf(its[i])
          IN  /\ st >= q /\ st + 2 <= end
              /\ b[st + 1] # 0
              /\ st + 2 + b[st + 2] <= end
              /\ ~(b[st + 1] = 8 /\ b[st + 2] = 0)
              /\ ~(b[st + 1] = 8 /\ b[st + 2] > 0 /\ b[st + 3] + 1 > b[st + 2])
              /\ its[i] = ItemTok(b, st)
              /\ i < Len(its) => ItemStartOf(its[i + 1]) = st + 2 + b[st + 2]
SdesItemsWalkH(b, q, end, its) ==
    IF its # <<>> /\ ItemsWitnessOk(b, q, end, its)
    THEN LET lst == its[Len(its)] IN SdesItemsWalk(b, ItemStartOf(lst) + 2 + lst.length, end, its)
    ELSE SdesItemsWalk(b, q, end, <<>>)

RECURSIVE SdesChunksWalkH(_, _, _, _, _)
SdesChunksWalkH(b, p, end, acc, hints) ==
    IF p >= end THEN [v |-> "done", chunks |-> acc]
    ELSE IF p + 4 > end THEN [v |-> "either", chunks |-> acc]
    ELSE LET r == SdesItemsWalkH(b, p + 4, end, IF Len(acc) + 1 <= Len(hints) THEN hints[Len(acc) + 1] ELSE <<>>)
         IN  CASE r.st = "reject" -> [v |-> "reject", chunks |-> acc]
               [] r.st \in {"either", "noterm"} -> [v |-> "either", chunks |-> acc]
               [] r.st = "term" ->
                    LET nxt == Pad4(r.q + 1)
                    IN  IF nxt > end THEN [v |-> "either", chunks |-> acc]
                        ELSE IF ~AllZero(b, r.q + 2, nxt) THEN [v |-> "reject", chunks |-> acc]
                        ELSE SdesChunksWalkH(b, nxt, end,
                                 Append(acc, [ssrc |-> U32At(b, p + 1), length |-> nxt - p, items |-> r.items]), hints)

RECURSIVE SdesChunksWalk(_, _, _, _)
SdesChunksWalk(b, p, end, acc) ==
    IF p >= end THEN [v |-> "done", chunks |-> acc]
    ELSE IF p + 4 > end THEN [v |-> "either", chunks |-> acc]
    ELSE LET r == SdesItemsWalk(b, p + 4, end, <<>>)
         IN  CASE r.st = "reject" -> [v |-> "reject", chunks |-> acc]
               [] r.st \in {"either", "noterm"} -> [v |-> "either", chunks |-> acc]
               [] r.st = "term" ->
                    LET nxt == Pad4(r.q + 1)
                    IN  IF nxt > end THEN [v |-> "either", chunks |-> acc]
                        ELSE IF ~AllZero(b, r.q + 2, nxt) THEN [v |-> "reject", chunks |-> acc]  \* non-zero fill
                        ELSE SdesChunksWalk(b, nxt, end,
                                 Append(acc, [ssrc |-> U32At(b, p + 1), length |-> nxt - p, items |-> r.items]))

\* the same verdict, computed with per-chunk item hints (validated, see above); hints = <<>> is SdesVerdict
SdesVerdictH(b, hints) ==
    IF ~RegularPad(b, 4) THEN [v |-> "either", chunks |-> <<>>, irregular |-> TRUE]
    ELSE LET w == SdesChunksWalkH(b, 4, Len(b) - PadCount(b), <<>>, hints)
         IN  IF w.v = "done"
             THEN IF Len(w.chunks) = Count(b)
                  THEN [v |-> "must", chunks |-> w.chunks, irregular |-> FALSE]
                  ELSE [v |-> "either", chunks |-> w.chunks, irregular |-> FALSE]
             ELSE [v |-> w.v, chunks |-> w.chunks, irregular |-> FALSE]

\* verdict for a string b already Framed as SDES
SdesVerdict(b) ==
    IF ~RegularPad(b, 4) THEN [v |-> "either", chunks |-> <<>>, irregular |-> TRUE]
    ELSE LET w == SdesChunksWalk(b, 4, Len(b) - PadCount(b), <<>>)
         IN  IF w.v = "done"
             THEN IF Len(w.chunks) = Count(b)
                  THEN [v |-> "must", chunks |-> w.chunks, irregular |-> FALSE]
                  ELSE [v |-> "either", chunks |-> w.chunks, irregular |-> FALSE]
             ELSE [v |-> w.v, chunks |-> w.chunks, irregular |-> FALSE]

\* C10 "either" class: what an accepting parser yields must be a tokenisation of the bytes.
\* got = the logged chunks (ssrc, items with slice offsets).  Items give their own position.
ItemStart(it) == IF it.type = 8 THEN it.po - 3 ELSE it.vo - 2
ItemEnd(it)   == ItemStart(it) + 2 + it.length
ItemConsistent(b, it, end) ==
    /\ ItemStart(it) >= 4 /\ ItemEnd(it) <= end
    /\ b[ItemStart(it) + 1] = it.type /\ it.type # 0
    /\ b[ItemStart(it) + 2] = it.length
    /\ IF it.type = 8
       THEN /\ it.length >= 1 => (it.plen = b[ItemStart(it) + 3] /\ it.pn = it.plen /\ it.po = ItemStart(it) + 3
                                  /\ it.vo = it.po + it.pn /\ it.vo + it.vn = ItemEnd(it))
       ELSE it.vn = it.length
ChunkConsistent(b, ch, end) ==
    /\ \A i \in 1..Len(ch.items) : ItemConsistent(b, ch.items[i], end)
    /\ \A i \in 1..(Len(ch.items) - 1) : ItemEnd(ch.items[i]) = ItemStart(ch.items[i + 1])
    /\ ch.items # <<>> =>
          LET s == ItemStart(ch.items[1]) - 4
          IN  s >= 4 /\ s % 4 = 0 /\ U32At(b, s + 1) = ch.ssrc
ConsistentTokens(b, chunks) ==
    LET end == Len(b) - PadCount(b)
    IN  /\ \A i \in 1..Len(chunks) : ChunkConsistent(b, chunks[i], end)
        /\ \A i, j \in 1..Len(chunks) :
              (i < j /\ chunks[i].items # <<>> /\ chunks[j].items # <<>>
                     /\ \A k \in (i + 1)..(j - 1) : chunks[k].items = <<>>)
              => LET e == ItemEnd(chunks[i].items[Len(chunks[i].items)])
                     s == ItemStart(chunks[j].items[1]) - 4
                 IN  /\ e < s
                     /\ b[e + 1] = 0        \* the terminator
                     \* every chunk without items in between accounts for an all-zero-terminated word
                     /\ TRUE

-----------------------------------------------------------------------------
(* compound *)
\* C11: the chain of length fields partitions b into whole packets with nothing left over
RECURSIVE TilesFrom(_, _, _)
TilesFrom(b, off, acc) ==
    IF off = Len(b) THEN [ok |-> TRUE, tiles |-> acc]
    ELSE IF Len(b) < off + 4 THEN [ok |-> FALSE, tiles |-> acc]
    ELSE LET n == 4 * (U16At(b, off + 3) + 1)
         IN  IF off + n > Len(b) THEN [ok |-> FALSE, tiles |-> acc]
             ELSE TilesFrom(b, off + n, Append(acc, << off, n >>))
Tiling(b) == TilesFrom(b, 0, <<>>)
CompoundAccepts(b) == b # <<>> /\ Tiling(b).ok

\* The chain of length fields is deterministic, so a tiling can also be CHECKED in one pass: h is
\* Tiling(b) iff its tiles follow the chain from offset 0 and it stops exactly where the chain stops.
\* Used for very long inputs, where a generator supplies h as a hint (validated here, never trusted).
IsTilingWitness(b, h) ==
    LET t   == h.tiles
        n   == Len(t)
        end == IF n = 0 THEN 0 ELSE t[n][1] + t[n][2]
    IN  /\ \A i \in 1..n :
              /\ t[i][1] = (IF i = 1 THEN 0 ELSE t[i - 1][1] + t[i - 1][2])
              /\ t[i][1] + 4 <= Len(b)
              /\ t[i][2] = 4 * (U16At(b, t[i][1] + 3) + 1)
              /\ t[i][1] + t[i][2] <= Len(b)
        /\ IF h.ok THEN end = Len(b)
           ELSE end < Len(b) /\ (Len(b) < end + 4 \/ end + 4 * (U16At(b, end + 3) + 1) > Len(b))

=============================================================================
