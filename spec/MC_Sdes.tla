------------------------------- MODULE MC_Sdes -------------------------------
(***************************************************************************)
(* Bounded model of the SDES chunk / item tokeniser as a STATE MACHINE      *)
(* (C10, also C01 / C03 / C18).                                             *)
(*                                                                         *)
(* Wire.tla specifies SDES tokenisation DENOTATIONALLY (SdesChunksWalk: a   *)
(* recursive left-to-right reading of the RFC 3550 s.6.5 grammar).  The     *)
(* implementation is a hand-written cursor machine over untrusted bytes.   *)
(* This model states the tokeniser OPERATIONALLY, structured like such a   *)
(* machine - one action per critical step:                                  *)
(*     RSsrc   read the 32-bit SSRC of the next chunk                       *)
(*     RItem   read one type / length / value item (PRIV: prefix split)     *)
(*     RTerm   meet the null terminator                                      *)
(*     RFill   skip the zero fill up to the next 32-bit boundary            *)
(* with the cursor `pos`, the chunk under construction and the highest      *)
(* byte index read so far - and a WRITER machine that assembles the body    *)
(* piece by piece from a menu of well-formed and defective pieces (SSRCs    *)
(* with leading zero bytes, items of every length residue, PRIV items with  *)
(* prefix lengths 0 / inside / overrunning, an item overrunning the packet, *)
(* terminators with clean, dirty, missing and surplus fill), which reaches  *)
(* bodies far longer than an alphabet enumeration can (MC_Bytes stops at 12 *)
(* bytes).  Checked on every reachable state, independently of each other:  *)
(*   Agree          when the reader stops, its verdict and chunks are the   *)
(*                  denotational walk's                                      *)
(*   Incremental    what the reader has completed so far is a prefix of the *)
(*                  denotational result (nothing is revised later)          *)
(*   ReadsInBounds  the reader never reads at or beyond the end of the       *)
(*                  chunk area (the padding is never looked at): the        *)
(*                  design-level form of C01 for this parser                 *)
(*   Aligned        every chunk starts on a 32-bit boundary                  *)
(*   CleanIsMust    a body assembled from well-formed pieces only is        *)
(*                  must-accept and decodes to exactly the pieces written   *)
(*                  (completeness of the oracle, stated from the WRITER's   *)
(*                  side, not from the walk)                                 *)
(*   FirstDefect    the first defective piece in byte order decides the      *)
(*                  verdict (reject / either), unless an overrunning item   *)
(*                  swallowed it                                             *)
(*   Progress       (action property) the measure 3 * (end - pos) + rank     *)
(*                  strictly decreases with every reader step: termination  *)
(* Every sealed packet is printed as a script for replay on the crate.      *)
(***************************************************************************)
EXTENDS Api, Json

CONSTANTS MaxChunks,      \* chunks the writer may emit
          MaxItems,       \* items in the first chunk
          MaxItemsRest,   \* items in every later chunk
          SPads           \* trailing padding values of the sealed packet

VARIABLES w, r
mvars == << vars, w, r >>

-----------------------------------------------------------------------------
(* the writer's menu *)
Ssrcs == << << 0, 0, 0, 0 >>, << 0, 0, 1, 2 >>, << 9, 8, 7, 6 >> >>

\* [b |-> bytes, d |-> defect class planted ("" = well-formed), tok |-> token fields for a well-formed item]
It(b, d) == [b |-> b, d |-> d]
Items == << It(<< 1, 0 >>, ""), It(<< 1, 1, 65 >>, ""), It(<< 2, 2, 65, 66 >>, ""), It(<< 1, 3, 65, 66, 67 >>, ""),
            It(<< 7, 6, 65, 66, 67, 68, 69, 70 >>, ""),
            It(<< 8, 1, 0 >>, ""), It(<< 8, 3, 0, 65, 66 >>, ""), It(<< 8, 3, 2, 65, 66 >>, ""),
            It(<< 8, 1, 1 >>, "reject"),            \* PRIV prefix overruns its item
            It(<< 8, 3, 3, 65, 66 >>, "reject"),
            It(<< 8, 0 >>, "either"),               \* PRIV without a prefix length byte
            It(<< 1, 9, 65, 66 >>, "over") >>       \* declares 9 bytes, brings 2: swallows what follows or overruns

Terms == {"ok", "dirty", "noterm", "extra"}

WInit == [stage |-> "ssrc", body |-> <<>>, nch |-> 0, ni |-> 0, first |-> "", over |-> FALSE,
          cfg |-> <<>>, pad |-> 0]
RIdle == [mode |-> "idle", pos |-> 0, chunks |-> <<>>, cur |-> << >>, hi |-> 0, v |-> ""]

Plant(d) == IF w.first = "" THEN d ELSE w.first

WSsrc ==
    /\ w.stage = "ssrc" /\ w.nch < MaxChunks
    /\ \E i \in 1..Len(Ssrcs) :
          w' = [w EXCEPT !.stage = "items", !.body = @ \o Ssrcs[i], !.ni = 0,
                         !.cfg = Append(@, [ssrc |-> U32At(Ssrcs[i], 1), items |-> <<>>])]

ItemCfgOf(b) == IF b[1] = 8 THEN [type |-> 8, prefix |-> SubSeq(b, 4, 3 + b[3]), value |-> SubSeq(b, 4 + b[3], Len(b))]
                ELSE [type |-> b[1], prefix |-> <<>>, value |-> SubSeq(b, 3, Len(b))]

WItem ==
    /\ w.stage = "items" /\ w.ni < (IF w.nch = 0 THEN MaxItems ELSE MaxItemsRest)
    /\ \E i \in 1..Len(Items) :
          LET it == Items[i]
          IN  w' = [w EXCEPT !.body = @ \o it.b, !.ni = @ + 1,
                             !.first = IF it.d \in {"", "over"} THEN @ ELSE Plant(it.d),
                             !.over = @ \/ it.d = "over",
                             !.cfg = IF it.d = "" THEN [@ EXCEPT ![Len(@)].items = Append(@, ItemCfgOf(it.b))] ELSE @]

WTerm ==
    /\ w.stage = "items"
    /\ \E t \in Terms :
          LET n    == Len(w.body)
              fill == Pad4(n + 1) - (n + 1)
          IN  CASE t = "ok" ->
                     w' = [w EXCEPT !.stage = "ssrc", !.nch = @ + 1, !.body = @ \o << 0 >> \o Zeros(fill)]
                [] t = "dirty" ->
                     /\ fill >= 1
                     /\ w' = [w EXCEPT !.stage = "ssrc", !.nch = @ + 1, !.first = Plant("reject"),
                                       !.body = @ \o << 0 >> \o [i \in 1..fill |-> IF i = fill THEN 3 ELSE 0]]
                [] t = "noterm" ->       \* the chunk area ends behind the last item: only where that is aligned
                     /\ n % 4 = 0
                     /\ w' = [w EXCEPT !.stage = "last", !.nch = @ + 1, !.first = Plant("either")]
                [] t = "extra" ->        \* a surplus all-zero word behind a well-terminated chunk
                     w' = [w EXCEPT !.stage = "last", !.nch = @ + 1, !.first = Plant("either"),
                                    !.body = @ \o << 0 >> \o Zeros(fill) \o << 0, 0, 0, 0 >>]

\* an overrunning item may leave the body unaligned: zero-extend it (those bytes are swallowed or overrun)
WSeal ==
    /\ w.stage \in {"ssrc", "last"} \/ (w.stage = "items" /\ w.over)
    /\ w.stage # "sealed"
    /\ \E p \in SPads :
          w' = [w EXCEPT !.stage = "sealed", !.pad = p,
                         !.body = @ \o Zeros(Pad4(Len(@)) - Len(@))]
    /\ r' = [RIdle EXCEPT !.mode = "ssrc", !.pos = 4]

WNext == (WSsrc \/ WItem \/ WTerm) /\ UNCHANGED r

-----------------------------------------------------------------------------
(* the sealed packet and the reader machine over it *)
Cnt == Len(SdesChunksWalk(Packet(0, 0, PT_SDES, w.body), 4, 4 + Len(w.body), <<>>).chunks) % 32
B   == Packet(w.pad, Cnt, PT_SDES, w.body)
End == 4 + Len(w.body)                    \* 0-based end of the chunk area = start of the padding

Stop(v) == [r EXCEPT !.mode = "stop", !.v = v]
Hi(i)   == Max2(r.hi, i)                  \* i = 1-based index of the highest byte the step reads

RSsrc ==
    /\ r.mode = "ssrc"
    /\ r' = IF r.pos >= End THEN Stop("done")
            ELSE IF r.pos + 4 > End THEN Stop("either")
            ELSE [r EXCEPT !.mode = "item", !.pos = @ + 4, !.hi = Hi(r.pos + 4),
                           !.cur = [ssrc |-> U32At(B, r.pos + 1), start |-> r.pos, items |-> <<>>]]

RItem ==
    /\ r.mode = "item"
    /\ r' = IF r.pos >= End THEN Stop("either")                                       \* no terminator
            ELSE IF B[r.pos + 1] = 0 THEN [r EXCEPT !.mode = "fill", !.hi = Hi(r.pos + 1)]      \* RTerm
            ELSE IF r.pos + 1 >= End THEN [Stop("reject") EXCEPT !.hi = Hi(r.pos + 1)]
            ELSE LET t == B[r.pos + 1]
                     l == B[r.pos + 2]
                 IN  IF r.pos + 2 + l > End THEN [Stop("reject") EXCEPT !.hi = Hi(r.pos + 2)]
                     ELSE IF t = 8 /\ l = 0 THEN [Stop("either") EXCEPT !.hi = Hi(r.pos + 2)]
                     ELSE IF t = 8 /\ B[r.pos + 3] + 1 > l THEN [Stop("reject") EXCEPT !.hi = Hi(r.pos + 3)]
                     ELSE [r EXCEPT !.pos = @ + 2 + l, !.hi = Hi(r.pos + 2 + l),
                                    !.cur = [@ EXCEPT !.items = Append(@, ItemTok(B, r.pos))]]

RFill ==
    /\ r.mode = "fill"
    /\ LET nxt == Pad4(r.pos + 1)
       IN  r' = IF nxt > End THEN Stop("either")
                ELSE IF \E i \in (r.pos + 2)..nxt : B[i] # 0
                     THEN [Stop("reject") EXCEPT !.hi = Hi(nxt)]
                ELSE [r EXCEPT !.mode = "ssrc", !.pos = nxt, !.hi = Hi(nxt),
                               !.chunks = Append(@, [ssrc |-> r.cur.ssrc, length |-> nxt - r.cur.start, items |-> r.cur.items]),
                               !.cur = << >>]

RNext == w.stage = "sealed" /\ (RSsrc \/ RItem \/ RFill) /\ UNCHANGED w

MCInit == InitState /\ w = WInit /\ r = RIdle
MCNext == (WNext \/ WSeal \/ RNext) /\ UNCHANGED vars
MCSpec == MCInit /\ [][MCNext]_mvars

-----------------------------------------------------------------------------
Sealed  == w.stage = "sealed"
Stopped == Sealed /\ r.mode = "stop"
Walk    == SdesChunksWalk(B, 4, End, <<>>)
IsPrefixOf(s, t) == Len(s) <= Len(t) /\ \A i \in 1..Len(s) : s[i] = t[i]

Agree == Stopped => (r.v = Walk.v /\ r.chunks = Walk.chunks)

Incremental == Sealed => IsPrefixOf(r.chunks, Walk.chunks)

ReadsInBounds == Sealed => (r.hi <= End /\ r.pos <= End)

Aligned == Sealed => (r.mode = "ssrc" => r.pos % 4 = 0) /\ \A i \in 1..Len(r.chunks) : r.chunks[i].length % 4 = 0

\* the configuration the must-accept tokens denote (as in MC_Bytes)
TokCfg(tok) ==
    [ssrc |-> tok.ssrc,
     items |-> [j \in 1..Len(tok.items) |->
                  LET t == tok.items[j]
                  IN  [type |-> t.type, value |-> Slice(B, t.vo, t.vn),
                       prefix |-> IF t.type = 8 THEN Slice(B, t.po, t.pn) ELSE <<>>]]]

CleanIsMust ==
    (Sealed /\ w.first = "" /\ ~w.over) =>
        LET vd == SdesVerdict(B)
        IN  /\ Framed(4, PT_SDES, B)
            /\ vd.v = "must" /\ MustAccept("sdes", B)
            /\ Len(vd.chunks) = w.nch
            /\ [i \in 1..Len(vd.chunks) |-> TokCfg(vd.chunks[i])] = w.cfg
            /\ Image([kind |-> "sdes", padding |-> w.pad, chunks |-> w.cfg]) = B

FirstDefect ==
    (Sealed /\ ~w.over /\ w.first # "") => (Walk.v = w.first /\ SdesVerdict(B).v = w.first /\ ~MustAccept("sdes", B))

Rank(x) == 3 * (End - x.pos) + (CASE x.mode = "item" -> 2 [] x.mode = "fill" -> 1 [] OTHER -> 0)
Progress == [][(Sealed /\ w' = w /\ r' # r) => (r'.mode = "stop" \/ Rank(r') < Rank(r))]_mvars

Script == << [op |-> "reset", sid |-> "MC_Sdes"], [op |-> "parse", kind |-> "sdes", b |-> B] >>
Emit == Stopped => PrintT(<< "REPLAY", ToJson(Script) >>)
=============================================================================
