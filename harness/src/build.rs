// Builders from call lists.  A builder is (kind, calls): the chained public calls are applied
// one by one, in the order given, exactly as a user would chain them; owned / borrowed variants
// of a call are distinct call modes.  Nothing is interpreted here: which calls make sense is the
// script generator's business, what they must produce is the specification's.
use crate::custom::CustomBuilder;
use crate::util::*;
use rtcp_types::prelude::*;
use rtcp_types::*;
use serde_json::Value;
use std::borrow::Cow;
use std::cell::RefCell;

pub enum FciVal<'a> {
    Nack(NackBuilder),
    Fir(FirBuilder),
    Sli(SliBuilder),
    Rpsi(RpsiBuilder<'a>),
    Pli(PliBuilder),
}

/// Storage for data that builders borrow; everything lives until the arena is dropped.
#[derive(Default)]
pub struct Arena {
    strs: RefCell<Vec<Box<str>>>,
    bytes: RefCell<Vec<Box<[u8]>>>,
    fcis: RefCell<Vec<Box<FciVal<'static>>>>,
}
impl Arena {
    pub fn s<'a>(&'a self, v: &Value) -> &'a str {
        let b: Box<str> = string_of(v).into_boxed_str();
        let p: *const str = &*b;
        self.strs.borrow_mut().push(b);
        // SAFETY: the box is never moved out or dropped before the arena
        unsafe { &*p }
    }
    pub fn b<'a>(&'a self, v: &Value) -> &'a [u8] {
        let b: Box<[u8]> = bytes_of(v).into_boxed_slice();
        let p: *const [u8] = &*b;
        self.bytes.borrow_mut().push(b);
        unsafe { &*p }
    }
    pub fn fci<'a>(&'a self, f: FciVal<'a>) -> &'a FciVal<'a> {
        // SAFETY: FciVal<'a> only borrows data owned by this arena (or nothing); it is dropped with it
        let f: FciVal<'static> = unsafe { std::mem::transmute::<FciVal<'a>, FciVal<'static>>(f) };
        // FCI builders are placed in recycled boxes, so that builders of successive operations live at the
        // SAME address (whatever a library remembers about "the builder at this address" meets a different one)
        let b: Box<FciVal<'static>> = match FCI_POOL.with(|p| p.borrow_mut().pop()) {
            Some(mut b) => {
                *b = f;
                b
            }
            None => Box::new(f),
        };
        let p: *const FciVal<'static> = &*b;
        self.fcis.borrow_mut().push(b);
        unsafe { &*(p as *const FciVal<'a>) }
    }
}
thread_local! {
    static FCI_POOL: RefCell<Vec<Box<FciVal<'static>>>> = RefCell::new(vec![]);
}
impl Drop for Arena {
    fn drop(&mut self) {
        // FCI values may borrow from strs/bytes: their contents are dropped first; the boxes are recycled
        for mut b in self.fcis.borrow_mut().drain(..).rev() {
            *b = FciVal::Pli(Pli::builder());
            FCI_POOL.with(|p| p.borrow_mut().push(b));
        }
    }
}

/// Observe a builder that is still under construction: ask its size, write it, ask its padding.  The results
/// are discarded (the same observation was recorded and judged when the script made it); what matters is that
/// the instance the script goes on configuring HAS been observed at this point, exactly as in the script.
pub fn probe<W: RtcpPacketWriter>(w: &W) {
    let _ = guarded(|| {
        if let Ok(n) = w.calculate_size() {
            let mut buf = vec![0u8; n];
            let _ = w.write_into(&mut buf);
        }
        let _ = w.get_padding();
    });
}
/// positions (number of adds already made) at which a nested builder is observed
fn probes_at(v: &Value, i: usize) -> bool {
    v.get("probes").and_then(|p| p.as_array()).map(|a| a.iter().any(|x| x.as_u64() == Some(i as u64))).unwrap_or(false)
}

fn call_name(c: &Value) -> &str {
    c["c"].as_str().unwrap_or_else(|| tool_error(&format!("call without name: {c}")))
}
fn mode(c: &Value) -> &str {
    c.get("mode").and_then(|m| m.as_str()).unwrap_or("borrowed")
}

pub fn make_rb(calls: &Value) -> ReportBlockBuilder {
    let calls = calls.as_array().unwrap_or_else(|| tool_error("rb calls"));
    let mut b = ReportBlock::builder(u32_of(&calls[0]["ssrc"]));
    for c in &calls[1..] {
        b = match call_name(c) {
            "fraction" => b.fraction_lost(u8_of(&c["v"])),
            "cumulative" => b.cumulative_lost(u32_of(&c["v"])),
            "ext_seq" => b.extended_sequence_number(u32_of(&c["v"])),
            "jitter" => b.interarrival_jitter(u32_of(&c["v"])),
            "lsr" => b.last_sender_report_timestamp(u32_of(&c["v"])),
            "dlsr" => b.delay_since_last_sender_report_timestamp(u32_of(&c["v"])),
            other => tool_error(&format!("rb call {other}")),
        };
    }
    b
}

/// SDES item from its call list: new{type,value,mode}, prefix{v,mode}, into_owned
pub fn make_item<'a>(arena: &'a Arena, calls: &Value) -> SdesItemBuilder<'a> {
    let calls = calls.as_array().unwrap_or_else(|| tool_error("item calls"));
    let new = &calls[0];
    let ty = u8_of(&new["type"]);
    let mut b: SdesItemBuilder<'a> = match mode(new) {
        "borrowed" => SdesItem::builder(ty, arena.s(&new["value"])),
        "cow_owned" => SdesItemBuilder::new(ty, string_of(&new["value"])),
        m => tool_error(&format!("item new mode {m}")),
    };
    for c in &calls[1..] {
        b = match call_name(c) {
            "prefix" => match mode(c) {
                "borrowed" => b.prefix(arena.b(&c["v"])),
                "cow_owned" => b.prefix(bytes_of(&c["v"])),
                m => tool_error(&format!("prefix mode {m}")),
            },
            "into_owned" => b.into_owned(),
            "probe" => {
                let _ = guarded(|| {
                    let mut buf = vec![0u8; 600];
                    let _ = b.write_into(&mut buf);
                });
                b
            }
            other => tool_error(&format!("item call {other}")),
        };
    }
    b
}

/// SDES chunk: {"ssrc":.., "via": "builder"|"new", "adds":[{"owned":bool,"item":[calls]}]}
pub fn make_chunk<'a>(arena: &'a Arena, v: &Value) -> SdesChunkBuilder<'a> {
    let ssrc = u32_of(&v["ssrc"]);
    let mut b = if v.get("via").and_then(|x| x.as_str()) == Some("new") {
        SdesChunkBuilder::new(ssrc)
    } else {
        SdesChunk::builder(ssrc)
    };
    let chunk_probe = |b: &SdesChunkBuilder<'a>| {
        let _ = guarded(|| {
            let mut buf = vec![0u8; 70000];
            let _ = b.write_into(&mut buf);
        });
    };
    if probes_at(v, 0) {
        chunk_probe(&b);
    }
    for (i, a) in v["adds"].as_array().unwrap_or_else(|| tool_error("chunk adds")).iter().enumerate() {
        let item = make_item(arena, &a["item"]);
        b = if a["owned"].as_bool().unwrap_or(false) { b.add_item_owned(item) } else { b.add_item(item) };
        if probes_at(v, i + 1) {
            chunk_probe(&b);
        }
    }
    b
}

fn make_rpsi<'a>(arena: Option<&'a Arena>, cfg: &Value) -> RpsiBuilder<'a> {
    let mut b: RpsiBuilder<'a> = Rpsi::builder();
    for c in cfg["calls"].as_array().unwrap_or_else(|| tool_error("rpsi calls")) {
        b = match call_name(c) {
            "pt" => b.payload_type(u8_of(&c["v"])),
            "data" => {
                let bits = u8_of(&c["bits"]);
                match (mode(c), arena) {
                    ("borrowed", Some(a)) => b.native_data(a.b(&c["v"]), bits),
                    ("borrowed", None) | ("cow_owned", _) => b.native_data(bytes_of(&c["v"]), bits),
                    ("owned", Some(a)) => b.native_data_owned(Cow::Borrowed(a.b(&c["v"])), bits),
                    ("owned", None) => b.native_data_owned(Cow::<[u8]>::Owned(bytes_of(&c["v"])), bits),
                    (m, _) => tool_error(&format!("rpsi data mode {m}")),
                }
            }
            "probe" => {
                probe(&b);
                b
            }
            other => tool_error(&format!("rpsi call {other}")),
        };
    }
    b
}

pub fn make_fci<'a>(arena: Option<&'a Arena>, cfg: &Value) -> FciVal<'a> {
    match cfg["f"].as_str().unwrap_or_else(|| tool_error("fci.f")) {
        "nack" => {
            let mut b = Nack::builder();
            if probes_at(cfg, 0) {
                probe(&b);
            }
            for (i, s) in cfg["adds"].as_array().unwrap_or_else(|| tool_error("nack adds")).iter().enumerate() {
                b = b.add_rtp_sequence(u16_of(s));
                if probes_at(cfg, i + 1) {
                    probe(&b);
                }
            }
            FciVal::Nack(b)
        }
        "fir" => {
            let mut b = Fir::builder();
            if probes_at(cfg, 0) {
                probe(&b);
            }
            for (i, e) in cfg["adds"].as_array().unwrap_or_else(|| tool_error("fir adds")).iter().enumerate() {
                b = b.add_ssrc(u32_of(&e[0]), u8_of(&e[1]));
                if probes_at(cfg, i + 1) {
                    probe(&b);
                }
            }
            FciVal::Fir(b)
        }
        "sli" => {
            let mut b = Sli::builder();
            if probes_at(cfg, 0) {
                probe(&b);
            }
            for (i, e) in cfg["adds"].as_array().unwrap_or_else(|| tool_error("sli adds")).iter().enumerate() {
                b = b.add_lost_macroblock(u16_of(&e[0]), u16_of(&e[1]), u8_of(&e[2]));
                if probes_at(cfg, i + 1) {
                    probe(&b);
                }
            }
            FciVal::Sli(b)
        }
        "rpsi" => FciVal::Rpsi(make_rpsi(arena, cfg)),
        "pli" => FciVal::Pli(Pli::builder()),
        other => tool_error(&format!("fci type {other}")),
    }
}

/// What to do with a finished builder (generic over its concrete type).
pub trait Consumer<'a> {
    type Out;
    fn take<W: RtcpPacketWriter + 'a>(self, w: W) -> Self::Out;
}

struct AddTo<'a>(CompoundBuilder<'a>);
impl<'a> Consumer<'a> for AddTo<'a> {
    type Out = CompoundBuilder<'a>;
    fn take<W: RtcpPacketWriter + 'a>(self, w: W) -> CompoundBuilder<'a> {
        self.0.add_packet(w)
    }
}

macro_rules! finish {
    ($b:expr, $pb:expr, $c:expr) => {
        if $pb {
            $c.take(PacketBuilder::from($b))
        } else {
            $c.take($b)
        }
    };
}

macro_rules! fb_finish {
    ($b:expr, $calls:expr, $pb:expr, $c:expr) => {{
        let mut b = $b;
        for c in &$calls[1..] {
            b = match call_name(c) {
                "padding" => b.padding(u8_of(&c["v"])),
                "sender" => b.sender_ssrc(u32_of(&c["v"])),
                "media" => b.media_ssrc(u32_of(&c["v"])),
                "probe" => {
                    probe(&b);
                    b
                }
                other => tool_error(&format!("feedback call {other}")),
            };
        }
        finish!(b, $pb, $c)
    }};
}

// TransportFeedbackBuilder<'a> is invariant in 'a, so the owned ('static) and the borrowed ('a)
// constructions are separate code paths.
macro_rules! fb_builder {
    ($Ty:ident, $arena:expr, $calls:expr, $pb:expr, $c:expr) => {{
        let new = &$calls[0];
        let owned = new["owned"].as_bool().unwrap_or(false);
        if owned {
            let b = match make_fci(None, &new["fci"]) {
                FciVal::Nack(f) => $Ty::builder_owned(f),
                FciVal::Fir(f) => $Ty::builder_owned(f),
                FciVal::Sli(f) => $Ty::builder_owned(f),
                FciVal::Rpsi(f) => $Ty::builder_owned(f),
                FciVal::Pli(f) => $Ty::builder_owned(f),
            };
            fb_finish!(b, $calls, $pb, $c)
        } else {
            let b = match $arena.fci(make_fci(Some($arena), &new["fci"])) {
                FciVal::Nack(f) => $Ty::builder(f),
                FciVal::Fir(f) => $Ty::builder(f),
                FciVal::Sli(f) => $Ty::builder(f),
                FciVal::Rpsi(f) => $Ty::builder(f),
                FciVal::Pli(f) => $Ty::builder(f),
            };
            fb_finish!(b, $calls, $pb, $c)
        }
    }};
}

macro_rules! custom_builder {
    ($pt:expr, $min:expr, $ssrc:expr, $maxc:expr, $arena:expr, $calls:expr, $c:expr) => {{
        let new = &$calls[0];
        let mut b = CustomBuilder::<$pt, $min, $ssrc, $maxc> { ssrc: u32_of(&new["ssrc"]), padding: 0, count: 0, payload: &[],
                                                         some0: new.get("some0").and_then(|x| x.as_bool()).unwrap_or(false),
                                                         reserve: new.get("reserve").map(usize_of).unwrap_or(0) };
        for c in &$calls[1..] {
            match call_name(c) {
                "padding" => b.padding = u8_of(&c["v"]),
                "count" => b.count = u8_of(&c["v"]),
                "payload" => b.payload = $arena.b(&c["v"]),
                "probe" => probe(&b),
                other => tool_error(&format!("custom call {other}")),
            }
        }
        $c.take(b)
    }};
}

/// Build the writer described by (kind, calls) and hand it to the consumer.
/// `pb`: convert into the PacketBuilder enum first (built-in kinds only).
pub fn build<'a, C: Consumer<'a>>(arena: &'a Arena, kind: &str, calls: &[Value], pb: bool, c: C) -> C::Out {
    if calls.is_empty() {
        tool_error("builder without a constructor call");
    }
    let new = &calls[0];
    if call_name(new) != "new" {
        tool_error("first call must be new");
    }
    match kind {
        "sr" => {
            let mut b = SenderReport::builder(u32_of(&new["ssrc"]));
            for c in &calls[1..] {
                b = match call_name(c) {
                    "padding" => b.padding(u8_of(&c["v"])),
                    "ntp" => b.ntp_timestamp(u64_of(&c["v"])),
                    "rtp" => b.rtp_timestamp(u32_of(&c["v"])),
                    "pkts" => b.packet_count(u32_of(&c["v"])),
                    "octets" => b.octet_count(u32_of(&c["v"])),
                    "add_rb" => b.add_report_block(make_rb(&c["v"])),
                    "probe" => {
                        probe(&b);
                        b
                    }
                    other => tool_error(&format!("sr call {other}")),
                };
            }
            finish!(b, pb, c)
        }
        "rr" => {
            let mut b = ReceiverReport::builder(u32_of(&new["ssrc"]));
            for c in &calls[1..] {
                b = match call_name(c) {
                    "padding" => b.padding(u8_of(&c["v"])),
                    "add_rb" => b.add_report_block(make_rb(&c["v"])),
                    "probe" => {
                        probe(&b);
                        b
                    }
                    other => tool_error(&format!("rr call {other}")),
                };
            }
            finish!(b, pb, c)
        }
        "sdes" => {
            let mut b = Sdes::builder();
            for c in &calls[1..] {
                b = match call_name(c) {
                    "padding" => b.padding(u8_of(&c["v"])),
                    "add_chunk" => b.add_chunk(make_chunk(arena, &c["v"])),
                    "probe" => {
                        probe(&b);
                        b
                    }
                    other => tool_error(&format!("sdes call {other}")),
                };
            }
            finish!(b, pb, c)
        }
        "bye" => {
            let mut b = Bye::builder();
            for c in &calls[1..] {
                b = match call_name(c) {
                    "padding" => b.padding(u8_of(&c["v"])),
                    "add_source" => b.add_source(u32_of(&c["v"])),
                    "reason" => match mode(c) {
                        "borrowed" => b.reason(arena.s(&c["v"])),
                        "cow_owned" => b.reason(string_of(&c["v"])),
                        "owned" => b.reason_owned(arena.s(&c["v"])),
                        "owned_string" => b.reason_owned(string_of(&c["v"])),
                        m => tool_error(&format!("reason mode {m}")),
                    },
                    "probe" => {
                        probe(&b);
                        b
                    }
                    other => tool_error(&format!("bye call {other}")),
                };
            }
            finish!(b, pb, c)
        }
        "app" => {
            let mut b = App::builder(u32_of(&new["ssrc"]), arena.s(&new["name"]));
            for c in &calls[1..] {
                b = match call_name(c) {
                    "padding" => b.padding(u8_of(&c["v"])),
                    "subtype" => b.subtype(u8_of(&c["v"])),
                    "data" => b.data(arena.b(c.get("big").unwrap_or(&c["v"]))),
                    "probe" => {
                        probe(&b);
                        b
                    }
                    other => tool_error(&format!("app call {other}")),
                };
            }
            finish!(b, pb, c)
        }
        "unk" => {
            let data = arena.b(new.get("big").unwrap_or(&new["data"]));
            let ty = u8_of(&new["type"]);
            let mut b = if new.get("via").and_then(|x| x.as_str()) == Some("new") {
                UnknownBuilder::new(ty, data)
            } else {
                Unknown::builder(ty, data)
            };
            for c in &calls[1..] {
                b = match call_name(c) {
                    "padding" => b.padding(u8_of(&c["v"])),
                    "count" => b.count(u8_of(&c["v"])),
                    "probe" => {
                        probe(&b);
                        b
                    }
                    other => tool_error(&format!("unk call {other}")),
                };
            }
            finish!(b, pb, c)
        }
        "tfb" => fb_builder!(TransportFeedback, arena, calls, pb, c),
        "pfb" => fb_builder!(PayloadFeedback, arena, calls, pb, c),
        "custom" => {
            if pb {
                tool_error("custom builders cannot be wrapped in PacketBuilder");
            }
            let fam = usize_of(&new["fam"]);
            crate::with_family!(fam, custom_builder, arena, calls, c)
        }
        "compound" => {
            if pb {
                tool_error("compound builders cannot be wrapped in PacketBuilder");
            }
            let mut cb = Compound::builder();
            for call in &calls[1..] {
                match call_name(call) {
                    "add_packet" => {
                        let m = &call["v"];
                        let mk = m["kind"].as_str().unwrap_or_else(|| tool_error("member kind"));
                        let mcalls = m["calls"].as_array().unwrap_or_else(|| tool_error("member calls"));
                        let mpb = m.get("pb").and_then(|x| x.as_bool()).unwrap_or(false);
                        cb = build(arena, mk, mcalls, mpb, AddTo(cb));
                    }
                    "probe" => probe(&cb),
                    other => tool_error(&format!("compound call {other}")),
                }
            }
            c.take(cb)
        }
        other => tool_error(&format!("unknown builder kind {other}")),
    }
}
