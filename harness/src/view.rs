// Projections: every public accessor / conversion / iterator of a parsed value is called
// (each under catch_unwind, iterators under a step cap) and its result written as JSON.
// Slices are reported as (offset, len) inside the input buffer.  No comparison, no RTCP
// arithmetic: the TLA+ specification decides what each value must be.
use crate::custom::Custom;
use crate::util::*;
use rtcp_types::prelude::*;
use rtcp_types::*;
use serde_json::{json, Value};

pub fn perr(e: &RtcpParseError) -> Value {
    use RtcpParseError::*;
    let (name, f): (&str, Vec<u64>) = match e {
        UnsupportedVersion(v) => ("UnsupportedVersion", vec![*v as u64]),
        Truncated { expected, actual } => ("Truncated", vec![*expected as u64, *actual as u64]),
        TooLarge { expected, actual } => ("TooLarge", vec![*expected as u64, *actual as u64]),
        InvalidPadding => ("InvalidPadding", vec![]),
        SdesValueTooLarge { len, max } => ("SdesValueTooLarge", vec![*len as u64, *max as u64]),
        SdesPrivContentTruncated { len, min } => ("SdesPrivContentTruncated", vec![*len as u64, *min as u64]),
        SdesPrivPrefixTooLarge { len, available } => ("SdesPrivPrefixTooLarge", vec![*len as u64, *available as u64]),
        WrongImplementation => ("WrongImplementation", vec![]),
        PacketTypeMismatch { actual, requested } => ("PacketTypeMismatch", vec![*actual as u64, *requested as u64]),
        // a variant this harness does not know (the enum grew): reported by its Debug name and the numbers it shows
        #[allow(unreachable_patterns)]
        other => return other_err(&format!("{other:?}")),
    };
    json!({"t": "err", "e": name, "f": f})
}

pub fn werr(e: &RtcpWriteError) -> Value {
    use RtcpWriteError::*;
    let (name, f): (&str, Vec<u64>) = match e {
        OutputTooSmall(n) => ("OutputTooSmall", vec![*n as u64]),
        InvalidPadding { padding } => ("InvalidPadding", vec![*padding as u64]),
        AppSubtypeOutOfRange { subtype, max } => ("AppSubtypeOutOfRange", vec![*subtype as u64, *max as u64]),
        InvalidName => ("InvalidName", vec![]),
        DataLen32bitMultiple(n) => ("DataLen32bitMultiple", vec![*n as u64]),
        TooManySources { count, max } => ("TooManySources", vec![*count as u64, *max as u64]),
        ReasonLenTooLarge { len, max } => ("ReasonLenTooLarge", vec![*len as u64, *max as u64]),
        CumulativeLostTooLarge { value, max } => (
            "CumulativeLostTooLarge",
            vec![(*value >> 16) as u64, (*value & 0xffff) as u64, (*max >> 16) as u64, (*max & 0xffff) as u64],
        ),
        TooManyReportBlocks { count, max } => ("TooManyReportBlocks", vec![*count as u64, *max as u64]),
        TooManySdesChunks { count, max } => ("TooManySdesChunks", vec![*count as u64, *max as u64]),
        SdesValueTooLarge { len, max } => ("SdesValueTooLarge", vec![*len as u64, *max as u64]),
        SdesPrivPrefixTooLarge { len, max } => ("SdesPrivPrefixTooLarge", vec![*len as u64, *max as u64]),
        CountOutOfRange { count, max } => ("CountOutOfRange", vec![*count as u64, *max as u64]),
        NonLastCompoundPacketPadding => ("NonLastCompoundPacketPadding", vec![]),
        MissingFci => ("MissingFci", vec![]),
        TooManyNack => ("TooManyNack", vec![]),
        FciWrongFeedbackPacketType => ("FciWrongFeedbackPacketType", vec![]),
        PayloadTypeInvalid => ("PayloadTypeInvalid", vec![]),
        PaddingBitsTooLarge => ("PaddingBitsTooLarge", vec![]),
        TooManyFir => ("TooManyFir", vec![]),
        #[allow(unreachable_patterns)]
        other => return other_err(&format!("{other:?}")),
    };
    json!({"t": "err", "e": name, "f": f})
}

fn other_err(dbg: &str) -> Value {
    let name: String = dbg.chars().take_while(|c| c.is_ascii_alphanumeric() || *c == '_').collect();
    let f: Vec<u64> = ints_in(dbg).into_iter().map(|x| x.min(0x7fff_ffff)).collect();
    json!({"t": "err", "e": name, "f": f})
}

fn opt_pad(p: Option<u8>) -> Value {
    match p {
        Some(x) => json!(x),
        None => json!(-1),
    }
}

fn hdr<'a, P: RtcpPacketParserExt<'a>>(p: &P, pfx: &str) -> Rec {
    let mut r = Rec::new(&format!("{pfx}hdr."));
    r.put("version", || json!(p.version()));
    r.put("type", || json!(p.type_()));
    r.put("count", || json!(p.count()));
    r.put("subtype", || json!(p.subtype()));
    r.put("length", || json!(p.length()));
    r
}

fn rb_view(rb: &ReportBlock, pfx: &str) -> Rec {
    let mut r = Rec::new(pfx);
    r.put("ssrc", || j32(rb.ssrc()));
    r.put("fraction", || json!(rb.fraction_lost()));
    r.put("cumulative", || j32(rb.cumulative_lost()));
    r.put("ext_seq", || j32(rb.extended_sequence_number()));
    r.put("jitter", || j32(rb.interarrival_jitter()));
    r.put("lsr", || j32(rb.last_sender_report_timestamp()));
    r.put("dlsr", || j32(rb.delay_since_last_sender_report_timestamp()));
    r
}

/// list-shaped accessor: collect under a cap, hoisting panics of the element views
fn blocks<'a>(r: &mut Rec, it: impl FnOnce() -> Box<dyn Iterator<Item = ReportBlock<'a>> + 'a>, cap: usize) {
    let pfx = r.prefix.clone();
    let mut sub_panics = vec![];
    let mut hang = false;
    r.put("blocks", || {
        let (items, h) = drive(it(), cap, |rb| {
            let (v, p) = rb_view(&rb, &format!("{pfx}blocks[].")).done();
            sub_panics.extend(p);
            v
        });
        hang = h;
        Value::Array(items)
    });
    r.panics.extend(sub_panics);
    if hang {
        r.panics.push(format!("{pfx}blocks: HANG (step cap exceeded)"));
    }
}

pub fn sr_view(p: &SenderReport, data: &[u8], pfx: &str) -> Rec {
    let mut r = Rec::new(pfx);
    let mut h = hdr(p, pfx);
    h.put("padding", || opt_pad(p.padding()));
    r.sub("hdr", h);
    r.put("ssrc", || j32(p.ssrc()));
    r.put("ntp", || j64(p.ntp_timestamp()));
    r.put("rtp", || j32(p.rtp_timestamp()));
    r.put("pkts", || j32(p.packet_count()));
    r.put("octets", || j32(p.octet_count()));
    r.put("n_reports", || json!(p.n_reports()));
    blocks(&mut r, || Box::new(p.report_blocks()), step_cap(data.len()));
    r.put("blocks_alt", || alt_iter(|| p.report_blocks(), step_cap(data.len()), |rb| j32(rb.ssrc())));
    r
}

pub fn rr_view(p: &ReceiverReport, data: &[u8], pfx: &str) -> Rec {
    let mut r = Rec::new(pfx);
    let mut h = hdr(p, pfx);
    h.put("padding", || opt_pad(p.padding()));
    r.sub("hdr", h);
    r.put("ssrc", || j32(p.ssrc()));
    r.put("n_reports", || json!(p.n_reports()));
    blocks(&mut r, || Box::new(p.report_blocks()), step_cap(data.len()));
    r.put("blocks_alt", || alt_iter(|| p.report_blocks(), step_cap(data.len()), |rb| j32(rb.ssrc())));
    r
}

pub fn bye_view(p: &Bye, data: &[u8], pfx: &str) -> Rec {
    let mut r = Rec::new(pfx);
    let mut h = hdr(p, pfx);
    h.put("padding", || opt_pad(p.padding()));
    r.sub("hdr", h);
    let mut hang = false;
    r.put("ssrcs", || {
        let (items, hg) = drive(p.ssrcs(), step_cap(data.len()), j32);
        hang = hg;
        Value::Array(items)
    });
    if hang {
        r.panics.push(format!("{pfx}ssrcs: HANG (step cap exceeded)"));
    }
    r.put("ssrcs_alt", || alt_iter(|| p.ssrcs(), step_cap(data.len()), j32));
    r.put("reason", || match p.reason() {
        None => json!({"some": 0, "o": 0, "n": 0}),
        Some(s) => {
            let mut v = sl(data, s);
            v["some"] = json!(1);
            v
        }
    });
    r.put("reason_str", || match p.get_reason_string() {
        None => json!("none"),
        Some(Ok(_)) => json!("ok"),
        Some(Err(_)) => json!("utf8err"),
    });
    r
}

pub fn app_view(p: &App, data: &[u8], pfx: &str) -> Rec {
    let mut r = Rec::new(pfx);
    let mut h = hdr(p, pfx);
    h.put("padding", || opt_pad(p.padding()));
    r.sub("hdr", h);
    r.put("ssrc", || j32(p.ssrc()));
    r.put("name", || jbytes(&p.name()));
    r.put("name_str", || match p.get_name_string() {
        Ok(s) => jbytes(s.as_bytes()),
        Err(_) => json!([-1]),
    });
    r.put("data", || sl(data, p.data()));
    r
}

fn item_view(it: &SdesItem, data: &[u8], pfx: &str) -> Rec {
    let mut r = Rec::new(pfx);
    let mut is_priv = false;
    r.put("type", || {
        is_priv = it.type_() == SdesItem::PRIV;
        json!(it.type_())
    });
    r.put("length", || json!(it.length()));
    r.put("value", || sl(data, it.value()));
    r.put("value_str", || json!(it.get_value_string().is_ok()));
    // priv_prefix / priv_prefix_len have a documented panic precondition: only asked of PRIV items
    if is_priv {
        r.put("plen", || json!(it.priv_prefix_len()));
        r.put("prefix", || sl(data, it.priv_prefix()));
    } else {
        r.set("plen", json!(-1));
        r.set("prefix", json!({"o": -1, "n": 0}));
    }
    r
}

pub fn sdes_view(p: &Sdes, data: &[u8], pfx: &str) -> Rec {
    let mut r = Rec::new(pfx);
    let mut h = hdr(p, pfx);
    h.put("padding", || opt_pad(p.padding()));
    r.sub("hdr", h);
    let mut sub_panics = vec![];
    let cap = step_cap(data.len());
    r.put("chunks", || {
        let (chunks, hang) = drive(p.chunks(), cap, |ch| {
            let mut c = Rec::new(&format!("{pfx}chunks[]."));
            c.put("ssrc", || j32(ch.ssrc()));
            c.put("length", || json!(ch.length()));
            let mut ip = vec![];
            c.put("items", || {
                let (items, hang) = drive(ch.items(), cap, |it| {
                    let (v, pp) = item_view(it, data, &format!("{pfx}chunks[].items[].")).done();
                    ip.extend(pp);
                    v
                });
                if hang {
                    ip.push(format!("{pfx}chunks[].items: HANG"));
                }
                Value::Array(items)
            });
            c.panics.extend(ip);
            c.put("items_alt", || alt_iter(|| ch.items(), cap, |it| json!([it.type_(), sl(data, it.value())["o"]])));
            let (v, pp) = c.done();
            sub_panics.extend(pp);
            v
        });
        if hang {
            sub_panics.push(format!("{pfx}chunks: HANG"));
        }
        Value::Array(chunks)
    });
    r.panics.extend(sub_panics);
    r.put("chunks_alt", || alt_iter(|| p.chunks(), cap, |ch| j32(ch.ssrc())));
    r
}

// ---------------------------------------------------------------- FCI
pub fn nack_res(res: Result<Nack, RtcpParseError>, cap: usize, pfx: &str, panics: &mut Vec<String>) -> Value {
    match res {
        Err(e) => perr(&e),
        Ok(n) => {
            let mut r = Rec::new(pfx);
            r.set("t", json!("ok"));
            let mut hang = false;
            r.put("entries", || {
                let (items, h) = drive(n.entries(), cap, |x| json!(x));
                hang = h;
                Value::Array(items)
            });
            if hang {
                r.panics.push(format!("{pfx}entries: HANG (step cap exceeded)"));
            }
            r.put("entries_alt", || alt_iter(|| n.entries(), cap, |x| json!(x)));
            let (v, p) = r.done();
            panics.extend(p);
            v
        }
    }
}
pub fn fir_res(res: Result<Fir, RtcpParseError>, cap: usize, pfx: &str, panics: &mut Vec<String>) -> Value {
    match res {
        Err(e) => perr(&e),
        Ok(n) => {
            let mut r = Rec::new(pfx);
            r.set("t", json!("ok"));
            let mut hang = false;
            r.put("entries", || {
                let (items, h) = drive(n.entries(), cap, |x| json!([j32(x.ssrc()), x.sequence()]));
                hang = h;
                Value::Array(items)
            });
            if hang {
                r.panics.push(format!("{pfx}entries: HANG (step cap exceeded)"));
            }
            r.put("entries_alt", || alt_iter(|| n.entries(), cap, |x| json!([j32(x.ssrc()), x.sequence()])));
            let (v, p) = r.done();
            panics.extend(p);
            v
        }
    }
}
pub fn sli_res(res: Result<Sli, RtcpParseError>, cap: usize, pfx: &str, panics: &mut Vec<String>) -> Value {
    match res {
        Err(e) => perr(&e),
        Ok(n) => {
            let mut r = Rec::new(pfx);
            r.set("t", json!("ok"));
            let mut hang = false;
            r.put("entries", || {
                let (items, h) = drive(n.lost_macroblocks(), cap, |x| json!(ints_in(&format!("{x:?}"))));
                hang = h;
                Value::Array(items)
            });
            if hang {
                r.panics.push(format!("{pfx}entries: HANG (step cap exceeded)"));
            }
            r.put("entries_alt", || alt_iter(|| n.lost_macroblocks(), cap, |x| json!(ints_in(&format!("{x:?}")))));
            let (v, p) = r.done();
            panics.extend(p);
            v
        }
    }
}
pub fn rpsi_res(res: Result<Rpsi, RtcpParseError>, data: &[u8], pfx: &str, panics: &mut Vec<String>) -> Value {
    match res {
        Err(e) => perr(&e),
        Ok(n) => {
            let mut r = Rec::new(pfx);
            r.set("t", json!("ok"));
            r.put("pt", || json!(n.payload_type()));
            r.put("bs", || {
                let (s, bits) = n.bit_string();
                let mut v = sl(data, s);
                v["bits"] = json!(bits);
                v
            });
            let (v, p) = r.done();
            panics.extend(p);
            v
        }
    }
}
pub fn pli_res(res: Result<Pli, RtcpParseError>) -> Value {
    match res {
        Err(e) => perr(&e),
        Ok(_) => json!({"t": "ok"}),
    }
}

macro_rules! fci_row {
    ($p:expr, $data:expr, $pfx:expr, $r:expr) => {{
        let cap = step_cap($data.len());
        let mut f = Rec::new(&format!("{}fci.", $pfx));
        let mut pp = vec![];
        f.put("nack", || nack_res($p.parse_fci::<Nack>(), cap, &format!("{}fci.nack.", $pfx), &mut pp));
        f.put("pli", || pli_res($p.parse_fci::<Pli>()));
        f.put("sli", || sli_res($p.parse_fci::<Sli>(), cap, &format!("{}fci.sli.", $pfx), &mut pp));
        f.put("rpsi", || rpsi_res($p.parse_fci::<Rpsi>(), $data, &format!("{}fci.rpsi.", $pfx), &mut pp));
        f.put("fir", || fir_res($p.parse_fci::<Fir>(), cap, &format!("{}fci.fir.", $pfx), &mut pp));
        f.panics.extend(pp);
        $r.sub("fci", f);
    }};
}

pub fn tfb_view(p: &TransportFeedback, data: &[u8], pfx: &str) -> Rec {
    let mut r = Rec::new(pfx);
    let mut h = hdr(p, pfx);
    h.put("padding", || opt_pad(p.padding()));
    r.sub("hdr", h);
    r.put("sender", || j32(p.sender_ssrc()));
    r.put("media", || j32(p.media_ssrc()));
    fci_row!(p, data, pfx, r);
    r
}
pub fn pfb_view(p: &PayloadFeedback, data: &[u8], pfx: &str) -> Rec {
    let mut r = Rec::new(pfx);
    let mut h = hdr(p, pfx);
    h.put("padding", || opt_pad(p.padding()));
    r.sub("hdr", h);
    r.put("sender", || j32(p.sender_ssrc()));
    r.put("media", || j32(p.media_ssrc()));
    fci_row!(p, data, pfx, r);
    r
}

// ---------------------------------------------------------------- typed parse results
/// Touch the accessors of a parsed value in another order than the view functions do (last field first,
/// iterators from their last element, FCI types in reverse), discarding the results.
pub trait Scramble {
    /// returns what was read, in the order it was read
    fn scramble(&self) -> Value;
}
impl Scramble for SenderReport<'_> {
    fn scramble(&self) -> Value {
        let mut out: Vec<Value> = vec![];
        out.push(json!(format!("{:?}", self.report_blocks().last().map(|b| (b.delay_since_last_sender_report_timestamp(), b.ssrc())))));
        out.push(json!(format!("{:?}", (self.n_reports(), self.octet_count(), self.packet_count(), self.rtp_timestamp(), self.ntp_timestamp(), self.padding(), self.ssrc()))));
        out.push(json!(format!("{:?}", (self.length(), self.count(), self.type_(), self.version()))));        Value::Array(out)
    }
}
impl Scramble for ReceiverReport<'_> {
    fn scramble(&self) -> Value {
        let mut out: Vec<Value> = vec![];
        out.push(json!(format!("{:?}", self.report_blocks().last().map(|b| (b.interarrival_jitter(), b.cumulative_lost(), b.fraction_lost())))));
        out.push(json!(format!("{:?}", (self.n_reports(), self.padding(), self.ssrc(), self.length(), self.count()))));        Value::Array(out)
    }
}
impl Scramble for Sdes<'_> {
    fn scramble(&self) -> Value {
        let mut out: Vec<Value> = vec![];
        let chunks: Vec<_> = self.chunks().collect();
        for ch in chunks.iter().rev() {
            let items: Vec<_> = ch.items().collect();
            for it in items.iter().rev() {
                out.push(json!(format!("{:?}", (it.get_value_string().is_ok(), it.value().len(), it.length(), it.type_()))));
            }
            out.push(json!(format!("{:?}", (ch.length(), ch.ssrc()))));
        }
        out.push(json!(format!("{:?}", (self.padding(), self.length(), self.count()))));        Value::Array(out)
    }
}
impl Scramble for Bye<'_> {
    fn scramble(&self) -> Value {
        let mut out: Vec<Value> = vec![];
        out.push(json!(format!("{:?}", self.get_reason_string())));
        out.push(json!(format!("{:?}", self.reason())));
        out.push(json!(format!("{:?}", self.ssrcs().last())));
        out.push(json!(format!("{:?}", (self.padding(), self.length(), self.count()))));        Value::Array(out)
    }
}
impl Scramble for App<'_> {
    fn scramble(&self) -> Value {
        let mut out: Vec<Value> = vec![];
        out.push(json!(format!("{:?}", (self.data().len(), self.get_name_string().is_ok(), self.name(), self.ssrc(), self.padding(), self.subtype(), self.length()))));        Value::Array(out)
    }
}
impl Scramble for TransportFeedback<'_> {
    fn scramble(&self) -> Value {
        let mut out: Vec<Value> = vec![];
        out.push(json!(format!("{:?}", self.parse_fci::<Fir>().map(|f| f.entries().count()))));
        out.push(json!(format!("{:?}", self.parse_fci::<Rpsi>().map(|f| f.bit_string().1))));
        out.push(json!(format!("{:?}", self.parse_fci::<Sli>().map(|f| f.lost_macroblocks().count()))));
        out.push(json!(format!("{:?}", self.parse_fci::<Pli>().is_ok())));
        out.push(json!(format!("{:?}", self.parse_fci::<Nack>().map(|f| f.entries().last()))));
        out.push(json!(format!("{:?}", (self.media_ssrc(), self.sender_ssrc(), self.padding(), self.count(), self.length()))));        Value::Array(out)
    }
}
impl Scramble for PayloadFeedback<'_> {
    fn scramble(&self) -> Value {
        let mut out: Vec<Value> = vec![];
        out.push(json!(format!("{:?}", self.parse_fci::<Fir>().map(|f| f.entries().last().map(|e| (e.sequence(), e.ssrc()))))));
        out.push(json!(format!("{:?}", self.parse_fci::<Rpsi>().map(|f| (f.bit_string().1, f.payload_type())))));
        out.push(json!(format!("{:?}", self.parse_fci::<Sli>().map(|f| f.lost_macroblocks().last().is_some()))));
        out.push(json!(format!("{:?}", self.parse_fci::<Pli>().is_ok())));
        out.push(json!(format!("{:?}", self.parse_fci::<Nack>().map(|f| f.entries().count()))));
        out.push(json!(format!("{:?}", (self.media_ssrc(), self.sender_ssrc(), self.padding(), self.count(), self.length()))));        Value::Array(out)
    }
}
impl Scramble for Unknown<'_> {
    fn scramble(&self) -> Value {
        let mut out: Vec<Value> = vec![];
        out.push(json!(format!("{:?}", (self.data().len(), self.length(), self.count(), self.type_(), self.version()))));        Value::Array(out)
    }
}

fn wrap<T: Scramble>(res: Result<T, RtcpParseError>, view: impl Fn(&T) -> Rec, panics: &mut Vec<String>) -> Value {
    match res {
        Err(e) => perr(&e),
        Ok(v) => {
            let (mut view_, p) = view(&v).done();
            panics.extend(p);
            // every accessor once more on the same value, after its accessors have been touched in another
            // order: a view must not depend on what was read before, nor on the order of reading
            let _ = guarded(|| v.scramble());
            let (again, _) = view(&v).done();
            let same = again == view_;
            view_["again"] = json!(same);
            json!({"t": "ok", "view": view_})
        }
    }
}

/// result of the typed parser `kind` on `data` (call itself guarded by the caller)
pub fn typed(kind: &str, data: &[u8], pfx: &str, panics: &mut Vec<String>) -> Value {
    let r = guarded(|| {
        let mut pp = vec![];
        // the typed value wrapped into the generic enum (From<T> for Packet): same variant, same contents
        macro_rules! ty {
            ($T:ty, $view:ident) => {{
                let mut v = wrap(<$T>::parse(data), |p| $view(p, data, pfx), &mut pp);
                if v["t"] == "ok" {
                    let pkt = Packet::from(<$T>::parse(data).unwrap());
                    let (pv, _) = packet_view(&pkt, data, pfx).done();
                    let mut inner = pv["inner"].clone();
                    let mut mine = v["view"].clone();
                    inner.as_object_mut().map(|o| o.remove("again"));
                    mine.as_object_mut().map(|o| o.remove("again"));
                    v["as_packet"] = json!({"variant": pv["variant"], "same": inner == mine});
                    // a FRESH parse of the same bytes whose accessors are first touched in another order
                    // ... and what those reads return on the fresh value equals what they return on a value
                    // that has been read completely in the usual order before
                    let fresh = <$T>::parse(data).unwrap();
                    let s1 = guarded(|| fresh.scramble()).ok();
                    let (mut fv, _) = $view(&fresh, data, pfx).done();
                    fv.as_object_mut().map(|o| o.remove("again"));
                    let used = <$T>::parse(data).unwrap();
                    let _ = $view(&used, data, pfx).done();
                    let s2 = guarded(|| used.scramble()).ok();
                    v["fresh_same"] = json!(fv == mine && s1.is_some() && s1 == s2);
                    // Clone / PartialEq of a parsed value: a clone reads like the original, equals it, and two
                    // parses of the same bytes are equal (before and after their accessors have been used)
                    let cl = guarded(|| {
                        let c = used.clone();
                        let (mut cv, _) = $view(&c, data, pfx).done();
                        cv.as_object_mut().map(|o| o.remove("again"));
                        let c2 = <$T>::parse(data).unwrap().clone();
                        cv == mine && c == used && c2 == c && used == fresh && !(c != used)
                    });
                    v["clone_same"] = json!(cl.unwrap_or(false));
                }
                v
            }};
        }
        let v = match kind {
            "sr" => ty!(SenderReport, sr_view),
            "rr" => ty!(ReceiverReport, rr_view),
            "sdes" => ty!(Sdes, sdes_view),
            "bye" => ty!(Bye, bye_view),
            "app" => ty!(App, app_view),
            "tfb" => ty!(TransportFeedback, tfb_view),
            "pfb" => ty!(PayloadFeedback, pfb_view),
            _ => tool_error(&format!("typed: unknown kind {kind}")),
        };
        (v, pp)
    });
    match r {
        Ok((v, pp)) => {
            panics.extend(pp);
            v
        }
        Err(msg) => {
            panics.push(format!("{pfx}parse: {msg}"));
            json!({"t": "panic"})
        }
    }
}

pub const TYPED: [&str; 7] = ["sr", "rr", "sdes", "bye", "app", "tfb", "pfb"];

fn conv_res<'a, T: Scramble>(
    res: Result<T, RtcpParseError>,
    view: impl Fn(&T) -> Rec,
    panics: &mut Vec<String>,
) -> Value {
    wrap(res, view, panics)
}

/// the row of 7 conversions from an Unknown (by reference through try_as, and by value)
pub fn unknown_conv(u: &Unknown, data: &[u8], pfx: &str, panics: &mut Vec<String>) -> Value {
    let mut row = Rec::new(&format!("{pfx}conv."));
    let mut pp = vec![];
    macro_rules! cv {
        ($name:expr, $ty:ty, $view:ident) => {
            row.put($name, || {
                conv_res(u.try_as::<$ty>(), |p| $view(p, data, &format!("{pfx}conv.{}.", $name)), &mut pp)
            });
            row.put(&format!("{}_val", $name), || {
                let owned = Unknown::parse(u.data()).unwrap();
                conv_res(
                    <$ty>::try_from(owned),
                    |p| $view(p, data, &format!("{pfx}conv.{}_val.", $name)),
                    &mut pp,
                )
            });
            // the same unknown packet wrapped into the generic enum first, then converted
            row.put(&format!("{}_pkt", $name), || {
                let pkt = Packet::from(Unknown::parse(u.data()).unwrap());
                conv_res(pkt.try_as::<$ty>(), |p| $view(p, data, &format!("{pfx}conv.{}_pkt.", $name)), &mut pp)
            });
            // ... and converted by value (TryFrom<Packet>)
            row.put(&format!("{}_pktval", $name), || {
                let pkt = Packet::from(Unknown::parse(u.data()).unwrap());
                conv_res(<$ty>::try_from(pkt), |p| $view(p, data, &format!("{pfx}conv.{}_pktval.", $name)), &mut pp)
            });
        };
    }
    cv!("sr", SenderReport, sr_view);
    cv!("rr", ReceiverReport, rr_view);
    cv!("sdes", Sdes, sdes_view);
    cv!("bye", Bye, bye_view);
    cv!("app", App, app_view);
    cv!("tfb", TransportFeedback, tfb_view);
    cv!("pfb", PayloadFeedback, pfb_view);
    row.panics.extend(pp);
    let (v, p) = row.done();
    panics.extend(p);
    v
}

pub fn unknown_view(u: &Unknown, data: &[u8], pfx: &str) -> Rec {
    let mut r = Rec::new(pfx);
    let mut h = hdr(u, pfx);
    h.set("padding", json!(-2)); // Unknown has no padding accessor
    r.sub("hdr", h);
    r.put("data", || sl(data, u.data()));
    let mut pp = vec![];
    r.put("conv", || unknown_conv(u, data, pfx, &mut pp));
    r.panics.extend(pp);
    r
}

pub fn unknown_res(data: &[u8], pfx: &str, panics: &mut Vec<String>) -> Value {
    match guarded(|| {
        let mut pp = vec![];
        let v = wrap(Unknown::parse(data), |u| unknown_view(u, data, pfx), &mut pp);
        (v, pp)
    }) {
        Ok((v, pp)) => {
            panics.extend(pp);
            v
        }
        Err(msg) => {
            panics.push(format!("{pfx}parse: {msg}"));
            json!({"t": "panic"})
        }
    }
}

/// projection of a generic Packet: variant, header, the inner typed view, the conversion rows
pub fn packet_view(p: &Packet, data: &[u8], pfx: &str) -> Rec {
    let mut r = Rec::new(pfx);
    let variant = match p {
        Packet::App(_) => "app",
        Packet::Bye(_) => "bye",
        Packet::Rr(_) => "rr",
        Packet::Sdes(_) => "sdes",
        Packet::Sr(_) => "sr",
        Packet::TransportFeedback(_) => "tfb",
        Packet::PayloadFeedback(_) => "pfb",
        Packet::Unknown(_) => "unknown",
    };
    r.set("variant", json!(variant));
    r.put("is_unknown", || json!(p.is_unknown()));
    let h = hdr(p, pfx);
    r.sub("phdr", h);
    let ipfx = format!("{pfx}inner.");
    let mk_inner = || match p {
        Packet::App(x) => app_view(x, data, &ipfx),
        Packet::Bye(x) => bye_view(x, data, &ipfx),
        Packet::Rr(x) => rr_view(x, data, &ipfx),
        Packet::Sdes(x) => sdes_view(x, data, &ipfx),
        Packet::Sr(x) => sr_view(x, data, &ipfx),
        Packet::TransportFeedback(x) => tfb_view(x, data, &ipfx),
        Packet::PayloadFeedback(x) => pfb_view(x, data, &ipfx),
        Packet::Unknown(x) => unknown_view(x, data, &ipfx),
    };
    let mut inner = mk_inner();
    let _ = guarded(|| match p {
        Packet::App(x) => x.scramble(),
        Packet::Bye(x) => x.scramble(),
        Packet::Rr(x) => x.scramble(),
        Packet::Sdes(x) => x.scramble(),
        Packet::Sr(x) => x.scramble(),
        Packet::TransportFeedback(x) => x.scramble(),
        Packet::PayloadFeedback(x) => x.scramble(),
        Packet::Unknown(x) => x.scramble(),
    });
    let same = mk_inner().m == inner.m;
    inner.set("again", json!(same));
    r.sub("inner", inner);
    // conversions by reference (try_as / TryFrom<&Packet>)
    let mut row = Rec::new(&format!("{pfx}conv."));
    let mut pp = vec![];
    macro_rules! cv {
        ($name:expr, $ty:ty, $view:ident) => {
            row.put($name, || {
                conv_res(p.try_as::<$ty>(), |x| $view(x, data, &format!("{pfx}conv.{}.", $name)), &mut pp)
            });
        };
    }
    cv!("sr", SenderReport, sr_view);
    cv!("rr", ReceiverReport, rr_view);
    cv!("sdes", Sdes, sdes_view);
    cv!("bye", Bye, bye_view);
    cv!("app", App, app_view);
    cv!("tfb", TransportFeedback, tfb_view);
    cv!("pfb", PayloadFeedback, pfb_view);
    row.panics.extend(pp);
    r.sub("conv", row);
    r
}

/// conversions by value: TryFrom<Packet> consumes the packet, so each one re-parses first
pub fn packet_conv_val(data: &[u8], pfx: &str, panics: &mut Vec<String>) -> Value {
    let mut row = Rec::new(&format!("{pfx}conv_val."));
    let mut pp = vec![];
    macro_rules! cv {
        ($name:expr, $ty:ty, $view:ident) => {
            row.put($name, || match Packet::parse(data) {
                Err(e) => perr(&e),
                Ok(p) => conv_res(
                    <$ty>::try_from(p),
                    |x| $view(x, data, &format!("{pfx}conv_val.{}.", $name)),
                    &mut pp,
                ),
            });
        };
    }
    cv!("sr", SenderReport, sr_view);
    cv!("rr", ReceiverReport, rr_view);
    cv!("sdes", Sdes, sdes_view);
    cv!("bye", Bye, bye_view);
    cv!("app", App, app_view);
    cv!("tfb", TransportFeedback, tfb_view);
    cv!("pfb", PayloadFeedback, pfb_view);
    row.panics.extend(pp);
    let (v, p) = row.done();
    panics.extend(p);
    v
}

/// result of the generic parser on `data`
pub fn packet_res(data: &[u8], pfx: &str, with_conv: bool, panics: &mut Vec<String>) -> Value {
    packet_res_in(data, data, pfx, with_conv, panics)
}

/// same, with slice positions reported relative to `base` (the buffer `data` is a sub-slice of)
pub fn packet_res_in(base: &[u8], data: &[u8], pfx: &str, with_conv: bool, panics: &mut Vec<String>) -> Value {
    match guarded(|| {
        let mut pp = vec![];
        let v = match Packet::parse(data) {
            Err(e) => perr(&e),
            Ok(p) => {
                let (mut view, p2) = packet_view(&p, base, pfx).done();
                pp.extend(p2);
                if with_conv {
                    view["conv_val"] = packet_conv_val(data, pfx, &mut pp);
                    // From<T> for Packet: wrapping the typed value back must give the same variant
                }
                json!({"t": "ok", "view": view})
            }
        };
        (v, pp)
    }) {
        Ok((v, pp)) => {
            panics.extend(pp);
            v
        }
        Err(msg) => {
            panics.push(format!("{pfx}parse: {msg}"));
            json!({"t": "panic"})
        }
    }
}

pub fn custom_res<const PT: u8, const MIN: usize, const SSRC: bool, const MAXC: u8>(
    res: Result<Custom<PT, MIN, SSRC, MAXC>, RtcpParseError>,
    data: &[u8],
    pfx: &str,
    panics: &mut Vec<String>,
) -> Value {
    match res {
        Err(e) => perr(&e),
        Ok(c) => {
            let mut r = Rec::new(pfx);
            let mut h = hdr(&c, pfx);
            h.put("padding", || opt_pad(c.padding()));
            r.sub("hdr", h);
            r.put("ssrc", || match c.ssrc() {
                Some(x) => j32(x),
                None => json!([-1, -1]),
            });
            r.put("payload", || match c.payload() {
                Some(s) => sl(data, s),
                None => json!({"o": -2, "n": 0}),
            });
            r.put("raw", || sl(data, c.raw()));
            let (v, p) = r.done();
            panics.extend(p);
            json!({"t": "ok", "view": v})
        }
    }
}
