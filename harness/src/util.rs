// Value-free glue shared by the executor: JSON <-> Rust conversions, panic capture,
// slice positions by pointer arithmetic.  No RTCP arithmetic happens here.
use serde_json::{json, Map, Value};
use std::cell::RefCell;
use std::panic::{catch_unwind, AssertUnwindSafe};

pub fn tool_error(msg: &str) -> ! {
    eprintln!("TOOL-ERROR: {msg}");
    std::process::exit(2);
}

pub fn u8_of(v: &Value) -> u8 {
    match v.as_u64() {
        Some(x) if x <= 255 => x as u8,
        _ => tool_error(&format!("expected u8, got {v}")),
    }
}
pub fn u16_of(v: &Value) -> u16 {
    match v.as_u64() {
        Some(x) if x <= 65535 => x as u16,
        _ => tool_error(&format!("expected u16, got {v}")),
    }
}
pub fn usize_of(v: &Value) -> usize {
    match v.as_u64() {
        Some(x) => x as usize,
        _ => tool_error(&format!("expected usize, got {v}")),
    }
}
/// u32 from two 16-bit limbs [hi, lo] (shift and mask only; byte order is the spec's business)
pub fn u32_of(v: &Value) -> u32 {
    let a = v.as_array().unwrap_or_else(|| tool_error(&format!("expected [hi,lo], got {v}")));
    if a.len() != 2 {
        tool_error(&format!("expected [hi,lo], got {v}"));
    }
    ((u16_of(&a[0]) as u32) << 16) | u16_of(&a[1]) as u32
}
pub fn u64_of(v: &Value) -> u64 {
    let a = v.as_array().unwrap_or_else(|| tool_error(&format!("expected 4 limbs, got {v}")));
    if a.len() != 4 {
        tool_error(&format!("expected 4 limbs, got {v}"));
    }
    a.iter().fold(0u64, |acc, x| (acc << 16) | u16_of(x) as u64)
}
pub fn j32(x: u32) -> Value {
    json!([(x >> 16) & 0xffff, x & 0xffff])
}
pub fn j64(x: u64) -> Value {
    json!([(x >> 48) & 0xffff, (x >> 32) & 0xffff, (x >> 16) & 0xffff, x & 0xffff])
}
pub fn bytes_of(v: &Value) -> Vec<u8> {
    // compact form {"rep": byte, "n": count} for very long fills
    if let Some(o) = v.as_object() {
        let rep = u8_of(&o["rep"]);
        return vec![rep; usize_of(&o["n"])];
    }
    v.as_array()
        .unwrap_or_else(|| tool_error(&format!("expected byte array, got {v}")))
        .iter()
        .map(u8_of)
        .collect()
}
pub fn jbytes(b: &[u8]) -> Value {
    Value::Array(b.iter().map(|x| Value::from(*x)).collect())
}
pub fn string_of(v: &Value) -> String {
    String::from_utf8(bytes_of(v)).unwrap_or_else(|_| tool_error("script string is not UTF-8"))
}

/// (offset, len) of `s` relative to `base`, by pointer arithmetic; offset -1 if `s` is not inside `base`
pub fn sl(base: &[u8], s: &[u8]) -> Value {
    let b0 = base.as_ptr() as usize;
    let s0 = s.as_ptr() as usize;
    if s0 >= b0 && s0 + s.len() <= b0 + base.len() {
        json!({"o": s0 - b0, "n": s.len()})
    } else {
        json!({"o": -1, "n": s.len(), "bytes": jbytes(s)})
    }
}

thread_local! {
    static PANIC_MSG: RefCell<String> = RefCell::new(String::new());
}

pub fn install_panic_hook() {
    std::panic::set_hook(Box::new(|info| {
        let msg = if let Some(s) = info.payload().downcast_ref::<&str>() {
            s.to_string()
        } else if let Some(s) = info.payload().downcast_ref::<String>() {
            s.clone()
        } else {
            "panic".to_string()
        };
        let loc = info.location().map(|l| format!("{}:{}", l.file(), l.line())).unwrap_or_default();
        PANIC_MSG.with(|m| *m.borrow_mut() = format!("{msg} @ {loc}"));
    }));
}

/// Run `f`, turning a panic into data.
pub fn guarded<T>(f: impl FnOnce() -> T) -> Result<T, String> {
    match catch_unwind(AssertUnwindSafe(f)) {
        Ok(v) => Ok(v),
        Err(_) => Err(PANIC_MSG.with(|m| m.borrow().clone())),
    }
}

/// A record under construction together with the names of the accessors that panicked.
pub struct Rec {
    pub m: Map<String, Value>,
    pub panics: Vec<String>,
    pub prefix: String,
}
impl Rec {
    pub fn new(prefix: &str) -> Self {
        Rec { m: Map::new(), panics: vec![], prefix: prefix.to_string() }
    }
    /// evaluate one accessor; on panic the field is omitted and its name recorded
    pub fn put(&mut self, name: &str, f: impl FnOnce() -> Value) {
        match guarded(f) {
            Ok(v) => {
                self.m.insert(name.to_string(), v);
            }
            Err(msg) => self.panics.push(format!("{}{}: {}", self.prefix, name, msg)),
        }
    }
    pub fn set(&mut self, name: &str, v: Value) {
        self.m.insert(name.to_string(), v);
    }
    /// merge a sub-record (its panics are hoisted)
    pub fn sub(&mut self, name: &str, r: Rec) {
        self.panics.extend(r.panics);
        self.m.insert(name.to_string(), Value::Object(r.m));
    }
    pub fn done(self) -> (Value, Vec<String>) {
        (Value::Object(self.m), self.panics)
    }
}

/// Drive an iterator with a step cap; returns (items, hang)
pub fn drive<I: Iterator>(it: I, cap: usize, mut f: impl FnMut(I::Item) -> Value) -> (Vec<Value>, bool) {
    let mut out = vec![];
    let mut it = it;
    loop {
        if out.len() > cap {
            return (out, true);
        }
        match it.next() {
            Some(x) => out.push(f(x)),
            None => return (out, false),
        }
    }
}

/// the integers appearing in a Debug rendering, in order (SLI entries expose their fields only via Debug)
pub fn ints_in(s: &str) -> Vec<u64> {
    let mut out = vec![];
    let mut cur: Option<u64> = None;
    for ch in s.chars() {
        if let Some(d) = ch.to_digit(10) {
            cur = Some(cur.unwrap_or(0) * 10 + d as u64);
        } else if let Some(c) = cur.take() {
            out.push(c);
        }
    }
    if let Some(c) = cur {
        out.push(c);
    }
    out
}

/// Step bound for iterators, linear in the input length (a NACK word of 4 bytes yields up to 17 entries).
pub fn step_cap(len: usize) -> usize {
    5 * len + 16
}

/// Other ways of consuming the same list-shaped accessor: nth() on fresh iterators, repeated nth(1) on one
/// iterator, skip, step_by, count, last, two interleaved iterators, size_hint.  The specification requires all
/// of them to describe the same list (an iterator must not depend on HOW it is driven).
pub fn alt_iter<I: Iterator>(mk: impl Fn() -> I, cap: usize, f: impl Fn(I::Item) -> Value) -> Value {
    let n = mk().take(cap + 1).count();
    let mut idx: Vec<usize> = if n <= 40 { (0..n).collect() } else { vec![0, 1, 2, 16, 17, n / 2, n - 2, n - 1] };
    idx.retain(|i| *i < n);
    let nth: Vec<Value> = idx.iter().map(|&i| match mk().nth(i) {
        Some(x) => json!([i, [f(x)]]),
        None => json!([i, []]),
    }).collect();
    let nth_end = mk().nth(n).is_none() && mk().nth(usize::MAX).is_none() && mk().skip(usize::MAX).next().is_none()
        && mk().nth(usize::MAX / 4 + 1).is_none()
        // everything consumed without polling the final None, then asked for the last / the rest
        && mk().skip(n).last().is_none()
        && { let mut it = mk(); for _ in 0..n { let _ = it.next(); } it.last().is_none() }
        && { let mut it = mk(); for _ in 0..n { let _ = it.next(); } it.count() == 0 };
    let mut nth_seq = vec![];
    {
        let mut it = mk();
        while nth_seq.len() <= cap {
            match it.nth(1) {
                Some(x) => nth_seq.push(f(x)),
                None => break,
            }
        }
    }
    let skip: Vec<Value> = mk().skip(n / 2).take(cap + 1).map(&f).collect();
    let step: Vec<Value> = mk().step_by(3).take(cap + 1).map(&f).collect();
    let last: Vec<Value> = mk().take(cap + 1).last().map(&f).into_iter().collect();
    let (mut a, mut b) = (vec![], vec![]);
    {
        let (mut ia, mut ib) = (mk(), mk());
        let (mut da, mut db) = (false, false);
        while !(da && db) && a.len() + b.len() <= 2 * cap + 2 {
            if !da {
                match ia.next() {
                    Some(x) => a.push(f(x)),
                    None => da = true,
                }
            }
            if !db {
                match ib.next() {
                    Some(x) => b.push(f(x)),
                    None => db = true,
                }
            }
        }
    }
    let (lo, hi) = mk().size_hint();
    // partly consumed by next(), the rest consumed by fold-based (for_each) and try_fold-based (try_for_each)
    // adaptors; size_hint at that position; size_hint after an nth() beyond the end
    let mut splits: Vec<usize> = if n <= 40 { (0..=n).collect() } else { vec![0, 1, 2, 16, 17, 18, 34, n / 2, n - 1, n] };
    splits.retain(|k| *k <= n);
    let part = |use_try: bool| -> Vec<Value> {
        splits.iter().map(|&k| {
            let mut it = mk();
            for _ in 0..k { let _ = it.next(); }
            let (plo, phi) = it.size_hint();
            let st = std::cell::RefCell::new((0usize, None::<Value>, None::<Value>));
            let eat = |x: I::Item| -> bool {
                let mut g = st.borrow_mut();
                if g.0 <= cap { let v = f(x); if g.0 == 0 { g.1 = Some(v.clone()); } g.2 = Some(v); }
                g.0 += 1;
                g.0 <= cap
            };
            if use_try {
                let _ = it.try_for_each(|x| if eat(x) { Ok(()) } else { Err(()) });
            } else {
                it.take(cap + 1).for_each(|x| { eat(x); });
            }
            let (cnt, first, last) = st.into_inner();
            json!([k, cnt, first.into_iter().collect::<Vec<_>>(), last.into_iter().collect::<Vec<_>>(), plo, phi.map(|h| h as i64).unwrap_or(-1)])
        }).collect()
    };
    // fold on the iterator itself (not through take): bounded lists only
    let fold: Vec<Value> = if n <= cap {
        splits.iter().map(|&k| {
            let mut it = mk();
            for _ in 0..k { let _ = it.next(); }
            let (cnt, first, last) = it.fold((0usize, None, None), |(c, fi, _la): (usize, Option<Value>, Option<Value>), x| {
                let v = f(x);
                (c + 1, if c == 0 { Some(v.clone()) } else { fi }, Some(v))
            });
            json!([k, cnt, first.into_iter().collect::<Vec<_>>(), last.into_iter().collect::<Vec<_>>(), 0, -1])
        }).collect()
    } else { vec![] };
    // last() and count() called on the iterator ITSELF (adaptors such as take() do not forward to an override),
    // fresh and after k calls of next(): bounded lists only
    let lastd: Vec<Value> = if n <= cap {
        splits.iter().map(|&k| {
            let mut it = mk();
            for _ in 0..k { let _ = it.next(); }
            let l: Vec<Value> = it.last().map(&f).into_iter().collect();
            let mut it2 = mk();
            for _ in 0..k { let _ = it2.next(); }
            json!([k, l, it2.count()])
        }).collect()
    } else { vec![] };
    let tryf = part(true);
    let foreach = part(false);
    let hint_end = { let mut it = mk(); let _ = it.nth(n + 1); let (l, h) = it.size_hint(); [l as i64, h.map(|h| h as i64).unwrap_or(-1)] };
    let hint_end2 = { let mut it = mk().skip(n + 2); let _ = it.next(); let (l, h) = it.size_hint(); [l as i64, h.map(|h| h as i64).unwrap_or(-1)] };
    json!({"lastd": lastd, "fold": fold, "tryf": tryf, "foreach": foreach, "hint_end": hint_end, "hint_end2": hint_end2, "n": n, "nth": nth, "nth_end": nth_end, "nth_seq": nth_seq, "skip": skip, "step": step, "last": last,
           "a": a, "b": b, "hint": [lo, hi.map(|h| h as i64).unwrap_or(-1)]})
}
