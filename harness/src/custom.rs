// A family of third-party packet types written ONLY with the crate's public helpers
// (check_padding, write_header_unchecked, write_padding_unchecked, check_packet, parse_*),
// the way tests/custom_packet.rs does, parameterised by packet type, minimum length and
// whether the body starts with an SSRC (C19, quantifier "programs").
use rtcp_types::{
    prelude::*,
    utils::{parser, writer},
    Packet, RtcpPacket, RtcpParseError, RtcpWriteError, Unknown,
};

#[derive(Clone, Debug, PartialEq, Eq)]
pub struct Custom<'a, const PT: u8, const MIN: usize, const SSRC: bool, const MAXC: u8> {
    data: &'a [u8],
}

impl<'a, const PT: u8, const MIN: usize, const SSRC: bool, const MAXC: u8> RtcpPacket for Custom<'a, PT, MIN, SSRC, MAXC> {
    const MAX_COUNT: u8 = MAXC;
    const MIN_PACKET_LEN: usize = MIN;
    const PACKET_TYPE: u8 = PT;
}

impl<'a, const PT: u8, const MIN: usize, const SSRC: bool, const MAXC: u8> RtcpPacketParser<'a> for Custom<'a, PT, MIN, SSRC, MAXC> {
    fn parse(data: &'a [u8]) -> Result<Self, RtcpParseError> {
        parser::check_packet::<Self>(data)?;
        Ok(Self { data })
    }

    #[inline(always)]
    fn header_data(&self) -> [u8; 4] {
        self.data[..4].try_into().unwrap()
    }
}

impl<'a, const PT: u8, const MIN: usize, const SSRC: bool, const MAXC: u8> Custom<'a, PT, MIN, SSRC, MAXC> {
    pub fn padding(&self) -> Option<u8> {
        parser::parse_padding(self.data)
    }
    pub fn ssrc(&self) -> Option<u32> {
        if SSRC && self.data.len() >= 8 {
            Some(parser::parse_ssrc(self.data))
        } else {
            None
        }
    }
    /// payload after the fixed part, without the padding (third-party code: defensive slicing)
    pub fn payload(&self) -> Option<&'a [u8]> {
        let start = if SSRC { 8 } else { 4 };
        let end = self.data.len().checked_sub(self.padding().unwrap_or(0) as usize)?;
        self.data.get(start..end)
    }
    pub fn raw(&self) -> &'a [u8] {
        self.data
    }
}

#[derive(Debug)]
pub struct CustomBuilder<'a, const PT: u8, const MIN: usize, const SSRC: bool, const MAXC: u8> {
    pub ssrc: u32,
    pub padding: u8,
    pub count: u8,
    pub payload: &'a [u8],
    /// a third-party writer may report "no padding" as Some(0) (the trait allows it)
    pub some0: bool,
    /// a conservative third-party writer: calculate_size() is an upper bound (room for an optional extension that
    /// is not written); write_into_unchecked() returns what it really wrote
    pub reserve: usize,
}

impl<'a, const PT: u8, const MIN: usize, const SSRC: bool, const MAXC: u8> RtcpPacketWriter for CustomBuilder<'a, PT, MIN, SSRC, MAXC> {
    fn calculate_size(&self) -> Result<usize, RtcpWriteError> {
        writer::check_padding(self.padding)?;
        if self.count > MAXC {
            return Err(RtcpWriteError::CountOutOfRange { count: self.count, max: MAXC });
        }
        Ok(4 + if SSRC { 4 } else { 0 } + self.payload.len() + self.padding as usize + self.reserve)
    }

    fn write_into_unchecked(&self, buf: &mut [u8]) -> usize {
        // the header length is taken from the slice handed in: a conservative writer hands in what it will write
        let real = buf.len() - self.reserve;
        let buf = &mut buf[..real];
        let mut end = writer::write_header_unchecked::<Custom<PT, MIN, SSRC, MAXC>>(self.padding, self.count, buf);
        if SSRC {
            buf[end..end + 4].copy_from_slice(&self.ssrc.to_be_bytes());
            end += 4;
        }
        buf[end..end + self.payload.len()].copy_from_slice(self.payload);
        end += self.payload.len();
        end += writer::write_padding_unchecked(self.padding, &mut buf[end..]);
        end
    }

    fn get_padding(&self) -> Option<u8> {
        if self.padding == 0 {
            if self.some0 {
                Some(0)
            } else {
                None
            }
        } else {
            Some(self.padding)
        }
    }
}

impl<'a, const PT: u8, const MIN: usize, const SSRC: bool, const MAXC: u8> TryFrom<&'a Unknown<'a>> for Custom<'a, PT, MIN, SSRC, MAXC> {
    type Error = RtcpParseError;
    fn try_from(u: &'a Unknown<'a>) -> Result<Self, Self::Error> {
        Custom::parse(u.data())
    }
}

impl<'a, const PT: u8, const MIN: usize, const SSRC: bool, const MAXC: u8> TryFrom<&'a Packet<'a>> for Custom<'a, PT, MIN, SSRC, MAXC> {
    type Error = RtcpParseError;
    fn try_from(p: &'a Packet<'a>) -> Result<Self, Self::Error> {
        match p {
            Packet::Unknown(u) => Self::try_from(u),
            _ => Err(RtcpParseError::PacketTypeMismatch { actual: p.type_(), requested: PT }),
        }
    }
}

/// The family: (packet type, minimum length, has SSRC, MAX_COUNT of the RtcpPacket impl).  Index = "fam" in scripts.
pub const FAMILY: [(u8, usize, bool, u8); 9] =
    [(242, 12, true, 31), (199, 4, false, 31), (207, 8, true, 31), (0, 16, true, 31), (255, 12, true, 31), (192, 28, true, 31),
     (242, 20, true, 31), (210, 8, true, 20), (211, 4, false, 16)];

/// Dispatch a generic closure-like visitor over the family member `fam`.
#[macro_export]
macro_rules! with_family {
    ($fam:expr, $mac:ident, $($args:tt)*) => {
        match $fam {
            0 => $mac!(242, 12, true, 31, $($args)*),
            1 => $mac!(199, 4, false, 31, $($args)*),
            2 => $mac!(207, 8, true, 31, $($args)*),
            3 => $mac!(0, 16, true, 31, $($args)*),
            4 => $mac!(255, 12, true, 31, $($args)*),
            5 => $mac!(192, 28, true, 31, $($args)*),
            6 => $mac!(242, 20, true, 31, $($args)*),      // same packet type as member 0, larger minimum
            7 => $mac!(210, 8, true, 20, $($args)*),       // a type whose count has a smaller maximum (MAX_COUNT overridden)
            8 => $mac!(211, 4, false, 16, $($args)*),
            _ => $crate::util::tool_error("bad family index"),
        }
    };
}
