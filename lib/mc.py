# Specification -> implementation direction: TLC model-checks the bounded design-level models
# (spec/MC_*.tla: global invariants stated independently of the step relation) and prints every
# complete behaviour as a script ("REPLAY" lines); the scripts are then executed on the real crate
# and validated by Trace.tla like any other session.
import json
import os
import random
import re
import subprocess
import time

import runner
from runner import SPEC, ToolError, log

# model -> (invariants, properties); constants are given per (property, tier) in PLAN
ALL_KINDS = '{"sr", "rr", "sdes", "bye", "app", "unk", "tfb", "pfb", "custom", "compound"}'
WRITER_PROPS = ["C01", "C06", "C07", "C14", "C16", "C17", "C19", "C20"]


def W(kinds, d, fam=False, wrap=False, pad=False, inter=False):
    return {"Kinds": kinds, "D": d, "FamOn": "TRUE" if fam else "FALSE", "WrapOn": "TRUE" if wrap else "FALSE",
            "PadOps": "TRUE" if pad else "FALSE", "Observe": "TRUE" if inter else "FALSE"}


def tla_set(xs):
    return "{" + ", ".join(str(x) for x in xs) + "}"


def Bts(domain, **kw):
    """constants of MC_Bytes: every domain's parameters need a value; only those of `domain` matter"""
    c = {"Domain": f'"{domain}"',
         "Versions": tla_set([2]), "PBits": tla_set([0, 1]), "Counts": tla_set([0, 1]), "Types": tla_set([200, 201]),
         "LenFields": tla_set([0, 1]), "Lens": tla_set([4, 8]), "LastBytes": tla_set([4]),
         "SdesAlpha": tla_set([0, 1]), "SdesLens": tla_set([0, 4]), "SdesPads": tla_set([0]),
         "FciAlpha": tla_set([0, 1]), "FciWords": tla_set([0, 1]), "Formats": tla_set([1])}
    for k, v in kw.items():
        c[k] = tla_set(v)
    return c


FRAME_Q = Bts("frame", Versions=[1, 2], PBits=[0, 1], Counts=[0, 1, 31], Types=[77, 200, 201, 202, 203, 204, 205, 206, 242],
              LenFields=[0, 1, 2, 6, 7, 256, 16384, 16385, 32769, 65535], Lens=[0, 3, 4, 7, 8, 12, 13, 28, 32], LastBytes=[0, 4, 255])
FRAME_T = Bts("frame", Versions=[0, 1, 2, 3], PBits=[0, 1], Counts=[0, 1, 2, 31], Types=[0, 77, 192, 199, 200, 201, 202, 203, 204, 205, 206, 207, 242, 255],
              LenFields=[0, 1, 2, 3, 4, 5, 6, 7, 8, 12, 13, 256, 257, 16384, 16385, 16390, 32768, 32769, 49153, 65535], Lens=[0, 1, 2, 3, 4, 5, 7, 8, 9, 11, 12, 13, 16, 27, 28, 29, 32, 33, 52, 53, 56, 57],
              LastBytes=[0, 1, 4, 8, 255])
SDES_Q = Bts("sdes", SdesAlpha=[0, 1, 2, 8], SdesLens=[0, 4, 8], SdesPads=[0])
SDES_T = Bts("sdes", SdesAlpha=[0, 1, 2, 3, 8], SdesLens=[0, 4, 8], SdesPads=[0, 4])
SDES_T2 = Bts("sdes", SdesAlpha=[0, 1, 8], SdesLens=[12], SdesPads=[0, 8])
FCI_Q = Bts("fci", FciAlpha=[0, 1, 255], FciWords=[0, 1], Formats=[0, 1, 2, 3, 4, 5, 15, 31])
FCI_T = Bts("fci", FciAlpha=[0, 1, 128, 255], FciWords=[0, 1, 2], Formats=list(range(32)))
BYTES_INV = ["MustImpliesCan", "MandatedIsReject", "NoContradiction", "TypedImpliesGeneric", "ShortIsTruncated", "PadTransparent",
             "SdesMustReencodes", "FciLaws", "Emit"]

MODELS = {
    "MC_Bytes": {"inv": BYTES_INV, "prop": [], "props": ["C01", "C08", "C09", "C10", "C12", "C13", "C15", "C18", "C19"]},
    "MC_Writer": {
        "inv": ["SizeMult4", "RoundTrip", "PadLaw", "Implementable", "NotPermissive", "Laws", "RejectedUnrepresentable", "Emit"],
        "prop": [],
        "props": WRITER_PROPS,      # the model-level check selects every writer property at once
    },
    "MC_Nack": {
        "inv": ["Prefix", "Complete", "BoundedK", "MeasureNonNeg", "Bounded", "Emit"],
        "prop": ["Measure", "Fused"],
    },
    "MC_Sdes": {
        "inv": ["Agree", "Incremental", "ReadsInBounds", "Aligned", "CleanIsMust", "FirstDefect", "Emit"],
        "prop": ["Progress"],
    },
    "MC_Compound": {
        "inv": ["AcceptIffPartition", "IterBounded", "IterFaithful", "StopsAfterError", "IterComplete", "NoEarlyEnd", "Emit"],
        "prop": ["Fused"],
    },
}

# property -> list of (model, {tier: constants}, {tier: max behaviours replayed (seeded sample); absent = all})
SDESM_Q = {"MaxChunks": 2, "MaxItems": 1, "MaxItemsRest": 1, "SPads": tla_set([0, 4])}
SDESM_T = {"MaxChunks": 2, "MaxItems": 2, "MaxItemsRest": 1, "SPads": tla_set([0, 4])}
FRAME_PLAN = ("MC_Bytes", {"quick": FRAME_Q, "thorough": FRAME_T}, {"quick": 6000, "thorough": 150000})
PLAN = {
    "C01": [FRAME_PLAN, ("MC_Bytes", {"quick": SDES_Q, "thorough": SDES_T}, {"quick": 6000, "thorough": 100000}),
            ("MC_Sdes", {"quick": SDESM_Q, "thorough": SDESM_T}, {"quick": 2500, "thorough": 60000}),
            ("MC_Bytes", {"quick": FCI_Q, "thorough": FCI_T}, {"quick": 3000, "thorough": 100000})],
    "C08": [("MC_Bytes", {"quick": FRAME_Q, "thorough": FRAME_T}, {"thorough": 300000})],
    "C09": [FRAME_PLAN, ("MC_Writer", {"quick": W('{"sr", "rr", "bye", "app", "tfb", "pfb"}', 2), "thorough": W('{"sr", "rr", "bye", "app", "tfb", "pfb"}', 3, fam=True)},
                         {"quick": 3000, "thorough": 60000})],
    "C12": [FRAME_PLAN],
    "C18": [FRAME_PLAN, ("MC_Bytes", {"quick": SDES_Q, "thorough": SDES_T}, {"quick": 5000, "thorough": 100000})],
    "C10": [("MC_Bytes", {"quick": SDES_Q, "thorough": SDES_T}, {}), ("MC_Bytes", {"thorough": SDES_T2}, {}),
            ("MC_Sdes", {"quick": SDESM_Q, "thorough": SDESM_T}, {"quick": 6000})],
    "C02": [("MC_Writer", {"quick": W('{"sr", "rr"}', 2, inter=True), "thorough": W('{"sr", "rr"}', 3, wrap=True, inter=True)}, {})],
    "C03": [("MC_Writer", {"quick": W('{"sdes"}', 2, fam=True, inter=True), "thorough": W('{"sdes"}', 3, fam=True, wrap=True, inter=True)}, {})],
    "C04": [("MC_Writer", {"quick": W('{"bye", "app"}', 2, inter=True), "thorough": W('{"bye", "app"}', 3, wrap=True, inter=True)}, {})],
    "C05": [("MC_Writer", {"quick": W('{"tfb", "pfb"}', 1, fam=True, inter=True), "thorough": W('{"tfb", "pfb"}', 2, fam=True, wrap=True, inter=True)}, {})],
    "C06": [("MC_Writer", {"quick": W(ALL_KINDS, 2, wrap=True, inter=True), "thorough": W(ALL_KINDS, 3, fam=True, wrap=True, inter=True)}, {"quick": 4000, "thorough": 60000})],
    "C07": [("MC_Writer", {"quick": W(ALL_KINDS, 2, wrap=True, inter=True), "thorough": W(ALL_KINDS, 3, fam=True, wrap=True, inter=True)}, {"quick": 4000, "thorough": 60000})],
    "C13": [("MC_Writer", {"quick": W('{"sr", "rr", "sdes", "bye", "app", "tfb", "pfb"}', 2, pad=True),
                           "thorough": W('{"sr", "rr", "sdes", "bye", "app", "tfb", "pfb"}', 2, fam=True, pad=True)}, {"quick": 3000})],
    "C14": [("MC_Writer", {"quick": W('{"compound"}', 3, wrap=True, inter=True), "thorough": W('{"compound"}', 4, wrap=True, inter=True)}, {})],
    "C16": [("MC_Writer", {"quick": W(ALL_KINDS, 2, inter=True), "thorough": W(ALL_KINDS, 3, fam=True, inter=True)}, {"quick": 4000, "thorough": 60000})],
    "C17": [("MC_Writer", {"quick": W(ALL_KINDS, 2, wrap=True, inter=True), "thorough": W(ALL_KINDS, 3, fam=True, wrap=True, inter=True)}, {"quick": 4000, "thorough": 60000})],
    "C19": [FRAME_PLAN, ("MC_Writer", {"quick": W('{"unk", "custom"}', 3, wrap=True, inter=True), "thorough": W('{"unk", "custom"}', 4, wrap=True, inter=True)}, {})],
    "C20": [("MC_Writer", {"quick": W(ALL_KINDS, 2, fam=True, wrap=True, inter=True), "thorough": W(ALL_KINDS, 3, fam=True, wrap=True, inter=True)}, {"quick": 5000, "thorough": 80000})],
    "C15": [("MC_Bytes", {"quick": FCI_Q, "thorough": FCI_T}, {"quick": 8000, "thorough": 200000}), ("MC_Nack", {"quick": {"MaxWords": 1, "MaxSecond": 1}, "thorough": {"MaxWords": 2, "MaxSecond": 1}}, {"quick": None, "thorough": 20000})],
    "C11": [("MC_Compound", {"quick": {"MaxTiles": 2, "Extra": 3}, "thorough": {"MaxTiles": 3, "Extra": 3}}, {})],
}


def write_cfg(path, model, consts, props):
    m = MODELS[model]
    with open(path, "w") as f:
        f.write("SPECIFICATION MCSpec\nCONSTANTS\n")
        f.write("  PROPS = {%s}\n" % ", ".join('"%s"' % p for p in props))
        for k, v in consts.items():
            f.write(f"  {k} = {v}\n")
        f.write("INVARIANTS " + " ".join(m["inv"]) + "\n")
        if m["prop"]:
            f.write("PROPERTIES " + " ".join(m["prop"]) + "\n")
        f.write("CHECK_DEADLOCK FALSE\n")


REPLAY_RE = re.compile(r'^<<"REPLAY", "(.*)">>$')


def unescape(s):
    # TLC prints the string with \" and \\ escapes
    return s.replace('\\"', '"').replace("\\\\", "\\")


def run_model(model, consts, props, work, workers, timeout):
    cfg = os.path.join(work, f"{model}.cfg")
    write_cfg(cfg, model, consts, props)
    out_path = os.path.join(work, f"{model}.out")
    cmd = runner.tlc_cmd(model + ".tla", cfg, os.path.join(work, f"md_{model}"), workers=workers, xmx="8g")
    cmd = [c for c in cmd if not c.startswith("-Dtlc2.tool.queue")]       # breadth-first for model checking
    env = dict(os.environ)
    env.pop("JAVA_TOOL_OPTIONS", None)
    t0 = time.time()
    with open(out_path, "w") as f:
        try:
            r = subprocess.run(cmd, cwd=SPEC, env=env, stdout=f, stderr=subprocess.STDOUT, timeout=timeout)
        except subprocess.TimeoutExpired:
            raise ToolError(f"TLC timed out on {model} {consts}")
    sessions = []
    tail = []
    ok = False
    with open(out_path) as f:
        for line in f:
            line = line.rstrip("\n")
            m = REPLAY_RE.match(line)
            if m:
                try:
                    sessions.append(json.loads(unescape(m.group(1))))
                except Exception as e:
                    raise ToolError(f"{model}: malformed REPLAY line: {e}: {line[:200]}")
            else:
                tail.append(line)
                if "Model checking completed. No error has been found." in line:
                    ok = True
    text = "\n".join(tail)
    if r.returncode != 0 or not ok:
        # an invariant violated ON THE MODEL is a specification bug, never blamed on the code
        raise ToolError(f"model checking of {model} {consts} did not complete cleanly (exit {r.returncode}):\n" + text[-3000:])
    states, trans = runner.parse_tlc_counts(text)
    log(f"[mc] {model} {consts}: {states} distinct states, {trans} generated, {len(sessions)} behaviours, {time.time() - t0:.1f}s")
    return sessions, {"model": model, "constants": consts, "states": states, "transitions": trans,
                      "behaviours": len(sessions), "invariants": [i for i in MODELS[model]["inv"] if i != "Emit"] + MODELS[model]["prop"],
                      "wall_s": round(time.time() - t0, 1)}


def generate(prop, tier, seed, work, jobs):
    plan = PLAN.get(prop)
    if not plan:
        return [], None
    rnd = random.Random(seed)
    all_sessions = []
    stats = {"runs": [], "states": 0, "transitions": 0, "behaviours": 0, "exhaustive": True}
    for (model, consts, sample) in plan:
        if tier not in consts:
            continue
        sessions, st = run_model(model, consts[tier], MODELS[model].get("props", [prop]), work, workers=min(jobs, 8), timeout=3000)
        for i, s in enumerate(sessions):
            if s and s[0].get("op") == "reset":
                s[0]["sid"] = f"{model}/{i}"
        cap = (sample or {}).get(tier)
        if cap is not None and len(sessions) > cap:
            sessions = rnd.sample(sessions, cap)
            st["replayed_sample"] = cap
            stats["exhaustive"] = False
        st["replayed"] = len(sessions)
        stats["runs"].append(st)
        stats["states"] += st["states"]
        stats["transitions"] += st["transitions"]
        stats["behaviours"] += len(sessions)
        all_sessions.extend(sessions)
    return all_sessions, stats
