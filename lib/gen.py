# Script generators for the implementation -> specification direction (random, full value
# ranges, boundary biased).  A script is a list of sessions; a session is a list of operations
# (JSON objects) starting with {"op": "reset", "sid": ...}.  Nothing here knows what a result
# should be: the executor runs the operations on the real crate and Trace.tla judges them.
import random

U16B = [0, 1, 0xff, 0x100, 0x7fff, 0x8000, 0xfffe, 0xffff]


class G:
    def __init__(self, seed):
        self.r = random.Random(seed)

    # ---------------------------------------------------------------- scalars
    def u16(self):
        r = self.r
        return r.choice(U16B) if r.random() < 0.4 else r.randrange(65536)

    def u32(self):
        v = self._u32()
        pool = self.__dict__.setdefault("pool32", [])
        if pool and self.r.random() < 0.12:
            return list(self.r.choice(pool))      # relations between fields: the same value again
        pool.append(v)
        if len(pool) > 6:
            pool.pop(0)
        return v

    def _u32(self):
        r = self.r
        x = r.random()
        if x < 0.25:   # leading zero bytes
            return r.choice([[0, 0], [0, r.randrange(256)], [0, r.randrange(65536)], [r.randrange(256), r.randrange(65536)]])
        if x < 0.5:
            return [r.choice(U16B), r.choice(U16B)]
        return [r.randrange(65536), r.randrange(65536)]

    def u32bytes(self):
        return [self.r.randrange(256) for _ in range(4)]

    def u64(self):
        return self.u32() + self.u32()

    def u8(self):
        r = self.r
        return r.choice([0, 1, 31, 32, 127, 128, 254, 255]) if r.random() < 0.3 else r.randrange(256)

    def padding(self, legal=True, p_none=0.5):
        r = self.r
        if legal:
            if r.random() < p_none:
                return 0
            return r.choice([4, 8, 12, 252]) if r.random() < 0.6 else 4 * r.randrange(1, 64)
        return r.choice([1, 2, 3, 5, 6, 7, 9, 253, 254, 255, r.randrange(256) | 1])

    def bytes_(self, n):
        r = self.r
        m = r.random()
        if m < 0.2:
            return [0] * n
        if m < 0.3:
            return [255] * n
        if m < 0.5:
            return [r.choice([0, 1, 2, 4, 8, 255]) for _ in range(n)]
        return [r.randrange(256) for _ in range(n)]

    def utf8(self, n):
        """valid UTF-8 of exactly n bytes"""
        r = self.r
        k = r.random()
        if n > 0 and k < 0.06:                       # nothing but white space
            return [r.choice([0x20, 0x09, 0x0a, 0x0d]) for _ in range(n)]
        if n > 0 and k < 0.12:                       # ends with U+0000 / a blank
            return self._utf8(n - 1) + [r.choice([0x00, 0x00, 0x20, 0x0a])]
        if n >= 3 and k < 0.22:                      # a byte order mark or another "invisible" code point first / last
            sp = r.choice(["\ufeff", "\ufffe", "\u200b", "\u2028", "\u00a0", "\ufffd", "\u0085", "\u007f", "\u0001"]).encode()
            if len(sp) <= n:
                rest = self._utf8(n - len(sp))
                return (list(sp) + rest) if r.random() < 0.7 else (rest + list(sp))
        if n > 1 and k < 0.16:                       # starts with U+0000 / a blank, or has one inside
            body = self._utf8(n - 1)
            body.insert(r.choice([0, 0, r.randrange(n)]), r.choice([0x00, 0x20]))
            try:
                bytes(body).decode("utf-8")
                return body
            except UnicodeDecodeError:
                return [0x00] + self._utf8(n - 1)
        return self._utf8(n)

    def _utf8(self, n):
        r = self.r
        out = []
        while len(out) < n:
            left = n - len(out)
            k = r.random()
            if left >= 3 and k < 0.05:
                out += list("€".encode())      # 3 bytes
            elif left >= 2 and k < 0.15:
                out += list("ç".encode())      # 2 bytes
            elif left >= 4 and k < 0.18:
                out += list("\U0001f600".encode())  # 4 bytes
            else:
                out.append(r.randrange(0x20, 0x7f))
        return out

    def len_biased(self, maxlen=255, over=False):
        r = self.r
        k = r.random()
        if k < 0.35:
            return r.randrange(0, 9)
        if k < 0.55:
            return r.choice([maxlen - 3, maxlen - 2, maxlen - 1, maxlen])
        if over and k < 0.65:
            return r.choice([maxlen + 1, maxlen + 2, maxlen + 5])
        return r.randrange(0, maxlen + 1)

    # ---------------------------------------------------------------- call lists
    def shuffle_calls(self, new, setters, hist):
        """setters: list of calls; order-independent ones may be shuffled; adders keep relative order.
        With hist, some setters are preceded by an earlier overwritten call of the same setter."""
        r = self.r
        calls = list(setters)
        if hist:
            adders = [c for c in calls if c["c"].startswith("add_")]
            others = [c for c in calls if not c["c"].startswith("add_")]
            r.shuffle(others)
            # interleave others among adders at random positions
            merged = list(adders)
            for c in others:
                merged.insert(r.randrange(len(merged) + 1), c)
            calls = merged
        return [new] + calls

    def rb_calls(self, hist=False, bad=False):
        r = self.r
        calls = [{"c": "new", "ssrc": self.u32()}]
        fields = []
        for name in ["fraction", "cumulative", "ext_seq", "jitter", "lsr", "dlsr"]:
            if r.random() < 0.8:
                if name == "fraction":
                    v = self.u8()
                elif name == "cumulative":
                    hi = r.choice([0, 1, 255]) if r.random() < 0.6 else r.randrange(256)
                    if bad and r.random() < 0.5:
                        hi = r.choice([256, 0x8000, 0xffff, r.randrange(256, 65536)])
                    v = [hi, self.u16()]
                else:
                    v = self.u32()
                if hist and r.random() < 0.2:
                    fields.append({"c": name, "v": self.u8() if name == "fraction" else ([r.randrange(256), self.u16()] if name == "cumulative" else self.u32())})
                fields.append({"c": name, "v": v})
        if hist:
            # keep relative order of duplicates of the same setter (last wins), shuffle across setters
            keyed = [(r.random(), i, c) for i, c in enumerate(fields)]
            byname = {}
            for _, i, c in keyed:
                byname.setdefault(c["c"], []).append(c)
            names = list(byname)
            r.shuffle(names)
            fields = []
            pools = {n: list(v) for n, v in byname.items()}
            while any(pools.values()):
                n = r.choice([n for n in names if pools[n]])
                fields.append(pools[n].pop(0))
        return calls + fields

    def report(self, kind, hist=False, bad=None, nblocks=None):
        r = self.r
        new = {"c": "new", "ssrc": self.u32()}
        s = []
        if nblocks is None:
            nblocks = r.choice([0, 1, 2, 31]) if r.random() < 0.5 else r.randrange(0, 32)
        if bad == "blocks":
            nblocks = r.choice([32, 33, 40, 255, 256, 257, 287, 288])
        for i in range(nblocks):
            s.append({"c": "add_rb", "v": self.rb_calls(hist, bad == "cumulative" and (i == 0 or r.random() < 0.2))})
        if bad == "cumulative" and nblocks == 0:
            s.append({"c": "add_rb", "v": self.rb_calls(hist, True)})
        pad = self.padding(bad != "padding")
        if pad or r.random() < 0.3:
            if hist and r.random() < 0.3:
                s.append({"c": "padding", "v": self.padding(r.random() < 0.7)})
            s.append({"c": "padding", "v": pad})
        if kind == "sr":
            for name, gen in [("ntp", self.u64), ("rtp", self.u32), ("pkts", self.u32), ("octets", self.u32)]:
                if r.random() < 0.85:
                    if hist and r.random() < 0.2:
                        s.append({"c": name, "v": gen()})
                    s.append({"c": name, "v": gen()})
        return kind, self._order(new, s, hist)

    def _order(self, new, s, hist):
        """shuffle order-independent setters; same-named setters and adders keep relative order"""
        r = self.r
        if not hist:
            return [new] + s
        groups = {}
        order = []
        for c in s:
            key = "add" if c["c"].startswith("add_") else c["c"]
            if key not in groups:
                groups[key] = []
                order.append(key)
            groups[key].append(c)
        out = []
        pools = {k: list(v) for k, v in groups.items()}
        while any(pools.values()):
            k = r.choice([k for k in order if pools[k]])
            out.append(pools[k].pop(0))
        return [new] + out

    def item_calls(self, hist=False, bad=False, vlen=None, typ=None):
        r = self.r
        if typ is None:
            typ = r.choice([1, 2, 3, 4, 5, 6, 7, 8, 8, 8, 9, 10, 11, 12, 13, 14, 255, r.randrange(1, 256), r.randrange(1, 256)])
        calls = []
        if typ == 8:
            tot = vlen if vlen is not None else self.len_biased(254, over=bad)
            if bad:
                tot = r.choice([255, 256, 300, 509])
            plen = r.choice([0, tot, r.randrange(0, tot + 1)])
            vl = tot - plen
            if vl > 0 and r.random() < 0.3 and not bad:
                pass
            calls.append({"c": "new", "type": 8, "value": self.utf8(vl), "mode": r.choice(["borrowed", "cow_owned"])})
            if hist and r.random() < 0.3:
                calls.append({"c": "prefix", "v": self.bytes_(r.randrange(0, 6)), "mode": r.choice(["borrowed", "cow_owned"])})
                if r.random() < 0.5:
                    calls.append({"c": "into_owned"})
            if plen > 0 or len(calls) > 1 or r.random() < 0.5:
                calls.append({"c": "prefix", "v": self.bytes_(plen), "mode": r.choice(["borrowed", "cow_owned"])})
        else:
            vl = vlen if vlen is not None else self.len_biased(255, over=bad)
            if bad:
                vl = r.choice([256, 257, 300])
            calls.append({"c": "new", "type": typ, "value": self.utf8(vl), "mode": r.choice(["borrowed", "cow_owned"])})
            if hist and r.random() < 0.15:
                # documented as having no effect on a non-PRIV item, whatever its length
                calls.append({"c": "prefix", "v": self.bytes_(r.choice([r.randrange(0, 6), 254, 255, 256, 300])), "mode": "borrowed"})
        if hist and r.random() < 0.3:
            calls.append({"c": "into_owned"})
        if hist and r.random() < 0.15:
            calls.insert(r.randrange(1, len(calls) + 1), {"c": "probe"})
        return calls

    def chunk(self, hist=False, bad=False, nitems=None, small=False):
        r = self.r
        if nitems is None:
            nitems = r.choice([0, 1, 2, 3]) if r.random() < 0.7 else r.randrange(0, 13)
        adds = []
        for i in range(nitems):
            vlen = r.randrange(0, 6) if small else None
            adds.append({"owned": r.random() < 0.4, "item": self.item_calls(hist, bad and i == 0, vlen)})
        ch = {"ssrc": self.u32(), "via": r.choice(["builder", "new"]), "adds": adds}
        if hist and r.random() < 0.25:
            ch["probes"] = sorted({r.randrange(len(adds) + 1) for _ in range(r.randrange(1, 3))})
        return ch

    def sdes(self, hist=False, bad=None, nchunks=None, small=None):
        r = self.r
        if small is None:
            small = r.random() < 0.6
        if nchunks is None:
            nchunks = r.choice([0, 1, 2, 3]) if r.random() < 0.7 else r.randrange(0, 32)
        if bad == "chunks":
            nchunks = r.choice([32, 33, 256, 257, 287])
        s = []
        for i in range(nchunks):
            s.append({"c": "add_chunk", "v": self.chunk(hist, bad == "item" and i == 0, None if nchunks < 8 else r.randrange(0, 3), small or nchunks > 8)})
        if bad == "item" and nchunks == 0:
            s.append({"c": "add_chunk", "v": self.chunk(hist, True, 1)})
        pad = self.padding(bad != "padding")
        if pad or r.random() < 0.3:
            if hist and r.random() < 0.3:
                s.append({"c": "padding", "v": self.padding()})
            s.append({"c": "padding", "v": pad})
        return "sdes", self._order({"c": "new"}, s, hist)

    def bye(self, hist=False, bad=None, rlen=None, nsrc=None, pad=None):
        r = self.r
        s = []
        if nsrc is None:
            nsrc = r.choice([0, 1, 2, 31]) if r.random() < 0.6 else r.randrange(0, 32)
        if bad == "sources":
            nsrc = r.choice([32, 33, 50, 255, 256, 257, 287, 288, 512])
        for _ in range(nsrc):
            s.append({"c": "add_source", "v": self.u32()})
        if rlen is None:
            rlen = 0 if r.random() < 0.25 else self.len_biased(255)
        if bad == "reason":
            rlen = r.choice([256, 257, 300])
        modes = ["borrowed", "cow_owned", "owned", "owned_string"]
        if rlen > 0 or r.random() < 0.2:
            if hist and r.random() < 0.3:
                s.append({"c": "reason", "v": self.utf8(r.randrange(0, 20)), "mode": r.choice(modes)})
            s.append({"c": "reason", "v": self.utf8(rlen), "mode": r.choice(modes)})
        if pad is None:
            pad = self.padding(bad != "padding")
        if pad or r.random() < 0.3:
            if hist and r.random() < 0.3:
                s.append({"c": "padding", "v": self.padding()})
            s.append({"c": "padding", "v": pad})
        return "bye", self._order({"c": "new"}, s, hist)

    def app(self, hist=False, bad=None, dlen=None):
        r = self.r
        nlen = r.randrange(0, 5)
        name = [r.randrange(0x21, 0x7f) for _ in range(nlen)]
        if r.random() < 0.1 and nlen >= 2:
            name[r.randrange(1, nlen)] = 0       # embedded NUL is ASCII
        if bad == "name":
            name = r.choice([[0x41] * 5, list("é".encode()), [0x41, 0x42] + list("é".encode()), [0x41] * 8,
                             list("€".encode()) + [0x41]])
        new = {"c": "new", "ssrc": self.u32(), "name": name}
        s = []
        if dlen is None:
            dlen = 4 * (r.randrange(0, 5) if r.random() < 0.7 else r.randrange(0, 257))
        if bad == "data":
            dlen = dlen + r.choice([1, 2, 3])
        if dlen or r.random() < 0.5:
            if hist and r.random() < 0.3:
                s.append({"c": "data", "v": self.bytes_(4 * r.randrange(0, 4))})
            s.append({"c": "data", "v": self.bytes_(dlen)})
        st = r.randrange(0, 32)
        if bad == "subtype":
            st = r.choice([32, 33, 128, 255])
        if st or r.random() < 0.5:
            if hist and r.random() < 0.3:
                s.append({"c": "subtype", "v": r.randrange(0, 256)})
            s.append({"c": "subtype", "v": st})
        pad = self.padding(bad != "padding")
        if pad or r.random() < 0.3:
            s.append({"c": "padding", "v": pad})
        return "app", self._order(new, s, hist)

    def unk(self, hist=False, bad=None, builtin_ok=True, dlen=None):
        r = self.r
        ty = r.randrange(256)
        if not builtin_ok:
            while 200 <= ty <= 206:
                ty = r.randrange(256)
        if dlen is None:
            dlen = 4 * (r.randrange(0, 7) if r.random() < 0.8 else r.randrange(0, 100))
        if bad == "data":
            dlen += r.choice([1, 2, 3])
        new = {"c": "new", "type": ty, "data": self.bytes_(dlen), "via": r.choice(["builder", "new"])}
        s = []
        cnt = r.choice([0, 1, 31]) if r.random() < 0.6 else r.randrange(32)
        if bad == "count":
            cnt = r.choice([32, 33, 255])
        if cnt or r.random() < 0.4:
            if hist and r.random() < 0.3:
                s.append({"c": "count", "v": r.randrange(256)})
            s.append({"c": "count", "v": cnt})
        pad = self.padding(bad != "padding")
        if pad or r.random() < 0.3:
            s.append({"c": "padding", "v": pad})
        return "unk", self._order(new, s, hist)

    def fci(self, f=None, bad=None, hist=False, big=False):
        r = self.r
        if f is None:
            f = r.choice(["nack", "pli", "sli", "rpsi", "fir"])
        if f == "nack":
            n = r.randrange(0, 12) if not big else r.randrange(50, 3000)
            base = r.choice([0, 1000, 65501, 65519, 65533, r.randrange(65536)])
            k = r.random()
            if k < 0.4:     # clustered around the 17-value window
                seqs = [(base + r.choice([0, 1, 2, 15, 16, 17, 18, 33, 34, 35])) % 65536 for _ in range(n)]
            elif k < 0.7:   # dense run
                seqs = [(base + i) % 65536 for i in range(n)]
                r.shuffle(seqs)
            else:
                seqs = [r.randrange(65536) for _ in range(n)]
            if big:
                seqs = [(base + r.randrange(0, 4 * n)) % 65536 for _ in range(n)]
            if hist and seqs:
                seqs += [r.choice(seqs) for _ in range(r.randrange(0, 4))]   # re-adding is idempotent
                r.shuffle(seqs)
            return self._probed({"f": "nack", "adds": seqs}, hist)
        if f == "fir":
            n = r.randrange(0, 5) if not big else r.randrange(20, 200)
            adds = [[self.u32(), self.u8()] for _ in range(n)]
            if hist and adds:
                for _ in range(r.randrange(0, 3)):
                    adds.insert(r.randrange(len(adds) + 1), [r.choice(adds)[0], self.u8()])  # re-add SSRC
            return self._probed({"f": "fir", "adds": adds}, hist)
        if f == "sli":
            n = r.randrange(0, 5) if not big else r.randrange(20, 200)
            def fld(mx):
                return r.choice([0, 1, mx]) if r.random() < 0.5 else r.randrange(mx + 1)
            return self._probed({"f": "sli", "adds": [[fld(0x1fff), fld(0x1fff), fld(0x3f)] for _ in range(n)]}, hist)
        if f == "rpsi":
            calls = []
            n = r.randrange(0, 13) if not big else r.randrange(13, 301)
            bits = r.randrange(0, 9) if n > 0 else 0
            pt = r.choice([0, 96, 127]) if r.random() < 0.5 else r.randrange(128)
            if bad == "pt":
                pt = r.choice([128, 129, 255])
            if bad == "bits":
                bits = r.choice([9, 10, 255]) if n > 0 or r.random() < 0.5 else r.randrange(1, 9)
                if n == 0 and bits == 0:
                    bits = 1
            data = self.bytes_(n)
            if n and r.random() < 0.5:
                data[-1] = r.choice([0xff, 0xa5, 0x01, 0x80])
            modes = ["borrowed", "cow_owned", "owned"]
            c_pt = {"c": "pt", "v": pt}
            c_data = {"c": "data", "v": data, "bits": bits, "mode": r.choice(modes)}
            if hist:
                pre = []
                if r.random() < 0.3:
                    pre.append({"c": "pt", "v": r.randrange(128)})
                if r.random() < 0.3:
                    pre.append({"c": "data", "v": self.bytes_(r.randrange(0, 5)), "bits": 0, "mode": r.choice(modes)})
                calls = pre + ([c_pt, c_data] if r.random() < 0.5 else [c_data, c_pt])
            else:
                calls = [c_pt, c_data] if (pt or r.random() < 0.7) else [c_data]
            if n == 0 and bits == 0 and r.random() < 0.5:
                calls = [c for c in calls if c["c"] != "data"]
            if hist and r.random() < 0.3:
                calls.insert(r.randrange(len(calls) + 1), {"c": "probe"})
            return {"f": "rpsi", "calls": calls}
        return {"f": "pli"}

    def _probed(self, d, hist):
        """observe the nested builder (size / write) after some of its adds: no effect on what it builds"""
        r = self.r
        if hist and r.random() < 0.35 and len(d["adds"]) < 400:
            n = len(d["adds"])
            d["probes"] = sorted({r.randrange(n + 1) for _ in range(r.randrange(1, 3))})
        return d

    def fb(self, kind=None, f=None, hist=False, bad=None, big=False):
        r = self.r
        fci = self.fci(f, bad, hist, big)
        right = "tfb" if fci["f"] == "nack" else "pfb"
        if kind is None:
            kind = right
        if bad == "kind":
            kind = "pfb" if right == "tfb" else "tfb"
        new = {"c": "new", "fci": fci, "owned": r.random() < 0.5}
        s = []
        for name in ["sender", "media"]:
            if r.random() < 0.9:
                if hist and r.random() < 0.2:
                    s.append({"c": name, "v": self.u32()})
                s.append({"c": name, "v": self.u32()})
        pad = self.padding(bad != "padding")
        if pad or r.random() < 0.3:
            if hist and r.random() < 0.3:
                s.append({"c": "padding", "v": self.padding()})
            s.append({"c": "padding", "v": pad})
        return kind, self._order(new, s, hist)

    def custom(self, hist=False, bad=None, fam=None):
        r = self.r
        FAM = [(242, 12, True, 31), (199, 4, False, 31), (207, 8, True, 31), (0, 16, True, 31), (255, 12, True, 31), (192, 28, True, 31),
               (242, 20, True, 31), (210, 8, True, 20), (211, 4, False, 16)]
        if fam is None:
            fam = r.randrange(9)
        pt, mn, hs, maxc = FAM[fam]
        fixed = 8 if hs else 4
        need = max(0, mn - fixed)
        plen = need + 4 * (r.randrange(0, 3) if r.random() < 0.8 else r.randrange(0, 40))
        new = {"c": "new", "fam": fam, "ssrc": self.u32()}
        if r.random() < 0.3:
            new["some0"] = True          # this third-party writer reports "no padding" as Some(0)
        s = []
        if plen or r.random() < 0.5:
            s.append({"c": "payload", "v": self.bytes_(plen)})
        cnt = r.choice([0, 1, maxc]) if r.random() < 0.6 else r.randrange(maxc + 1)
        if bad == "count":
            cnt = r.choice([maxc + 1, 32, 255])
        if cnt or r.random() < 0.3:
            s.append({"c": "count", "v": cnt})
        pad = self.padding(bad != "padding")
        if pad or r.random() < 0.3:
            s.append({"c": "padding", "v": pad})
        return "custom", self._order(new, s, hist)

    BADS = {
        "sr": ["padding", "blocks", "cumulative"], "rr": ["padding", "blocks", "cumulative"],
        "sdes": ["padding", "chunks", "item"], "bye": ["padding", "sources", "reason"],
        "app": ["padding", "name", "data", "subtype"], "unk": ["padding", "count", "data"],
        "fb": ["padding", "kind", "pt", "bits"], "custom": ["padding", "count"],
    }

    def builder(self, kind=None, hist=False, bad=False, small=False):
        """(kind, calls) of a random builder; bad=True violates one acceptance rule"""
        r = self.r
        if kind is None:
            kind = r.choice(["sr", "rr", "sdes", "bye", "app", "unk", "fb", "fb", "custom"])
        b = r.choice(self.BADS["fb" if kind in ("tfb", "pfb", "fb") else kind]) if bad else None
        if kind in ("sr", "rr"):
            return self.report(kind, hist, b, nblocks=(r.randrange(0, 3) if small else None))
        if kind == "sdes":
            return self.sdes(hist, b, nchunks=(r.randrange(0, 3) if small and b != "chunks" else None), small=small or None)
        if kind == "bye":
            return self.bye(hist, b, rlen=(r.randrange(0, 12) if small and b != "reason" else None),
                            nsrc=(r.randrange(0, 3) if small and b != "sources" else None))
        if kind == "app":
            return self.app(hist, b, dlen=(4 * r.randrange(0, 3) if small else None))
        if kind == "unk":
            return self.unk(hist, b, dlen=(4 * r.randrange(0, 3) if small else None))
        if kind in ("tfb", "pfb", "fb"):
            f = None
            if b in ("pt", "bits"):
                f = "rpsi"
            return self.fb(None if kind == "fb" else kind, f, hist, b)
        if kind == "custom":
            return self.custom(hist, b)
        raise ValueError(kind)

    def member(self, depth=0, bad=False, pad_ok=True, small=True):
        """a compound member: {"kind", "calls", "pb"}"""
        r = self.r
        if depth < 2 and r.random() < 0.12:
            n = r.randrange(0, 3)
            calls = [{"c": "new"}] + [{"c": "add_packet", "v": self.member(depth + 1, False, pad_ok and i == n - 1)} for i in range(n)]
            return {"kind": "compound", "calls": calls, "pb": False}
        kind, calls = self.builder(hist=False, bad=bad, small=small)
        if not pad_ok:
            calls = [c for c in calls if c["c"] != "padding"]
        pb = kind not in ("custom", "compound") and r.random() < 0.4
        return {"kind": kind, "calls": calls, "pb": pb}

    def compound(self, n=None, bad=None):
        """calls of a CompoundBuilder; bad in {None, 'member', 'padding'}"""
        r = self.r
        if n is None:
            n = r.randrange(0, 5) if r.random() < 0.8 else r.randrange(5, 21)
        members = []
        for i in range(n):
            last = i == n - 1
            members.append(self.member(0, bad == "member" and i == (n // 2), pad_ok=last or False))
        if bad == "padding" and n >= 2:
            i = r.randrange(0, n - 1)
            k, calls = self.builder(r.choice(["bye", "rr", "app", "sr", "sdes", "unk", "tfb", "pfb", "custom"]), small=True)
            if k in ("tfb", "pfb"):      # the right kind for the FCI: only the padding rule is violated
                k = "tfb" if calls[0]["fci"]["f"] == "nack" else "pfb"
            calls = [c for c in calls if c["c"] != "padding"] + [{"c": "padding", "v": r.choice([4, 8, 252])}]
            members[i] = {"kind": k, "calls": calls, "pb": k != "custom" and r.random() < 0.5}
        if bad == "padding" and n >= 2 and r.random() < 0.3:
            # a NESTED compound whose last member is padded, not in last position
            i = r.randrange(0, n - 1)
            k, calls = self.builder(r.choice(["bye", "rr", "app"]), small=True)
            calls = [c for c in calls if c["c"] != "padding"] + [{"c": "padding", "v": r.choice([4, 8])}]
            inner = [{"c": "new"}, {"c": "add_packet", "v": {"kind": "rr", "calls": [{"c": "new", "ssrc": self.u32()}], "pb": False}},
                     {"c": "add_packet", "v": {"kind": k, "calls": calls, "pb": False}}]
            members[i] = {"kind": "compound", "calls": inner, "pb": False}
        if bad == "member" and n == 0:
            members.append(self.member(0, True))
        calls = [{"c": "new"}] + [{"c": "add_packet", "v": m} for m in members]
        if len(calls) > 1 and r.random() < 0.25:
            calls.insert(r.randrange(1, len(calls)), {"c": "probe"})
        return "compound", calls


# -------------------------------------------------------------------- sessions
def calls_to_ops(kind, calls):
    ops = [{"op": "call", "kind": kind, "c": calls[0]}]
    ops += [{"op": "call", "c": c} for c in calls[1:]]
    return ops


def write_ops(lens, fills=(0,)):
    ops = [{"op": "calc_size"}]
    for L in lens:
        for f in fills:
            ops.append({"op": "write_into", "len": L, "fill": f})
    return ops
