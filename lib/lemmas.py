# Unbounded arithmetic lemmas of the wire model (spec/Lemmas.tla) proved with TLAPS (tlapm).
# They are facts about the SPECIFICATION (sizes are multiples of 4, length-field round trip, NACK iterator
# measure, ...), so a failure here is reported in the evidence and on stderr but never as a verdict on the crate.
import os
import re
import shutil
import subprocess
import time

ROOT = os.path.dirname(os.path.dirname(os.path.abspath(__file__)))

RELEVANT = {   # theorem names per property (for the evidence)
    "C06": ["Pad4Props", "Pad4Fix", "SumMult4", "ChunkLenProps", "RpsiPadBits"],
    "C07": ["Pad4Props", "LenFieldRoundTrip", "LenFieldRange", "BE16RoundTrip", "U16Join", "Cum24", "ChunkLenProps", "ReasonLen"],
    "C08": ["HdrLenRoundTrip", "LenFieldRoundTrip"],
    "C13": ["PadLenField"],
    "C14": ["SumMult4"],
    "C15": ["NackWordDistinct", "MeasureSameWord", "MeasureNextWord", "MeasureNonNeg"],
    "C16": ["LenFieldRange"],
    "C18": ["HdrLenRoundTrip"],
    "C01": ["MeasureSameWord", "MeasureNextWord", "MeasureNonNeg"],
    "C05": ["NackWordDistinct", "RpsiPadBits"],
}


def prove(work, timeout=600):
    """run tlapm on a scratch copy of spec/Lemmas.tla; returns a dict for the evidence"""
    if shutil.which("tlapm") is None:
        return {"status": "skipped", "why": "tlapm not on PATH"}
    d = os.path.join(work, "lemmas")
    os.makedirs(d, exist_ok=True)
    shutil.copy(os.path.join(ROOT, "spec", "Lemmas.tla"), d)
    t0 = time.time()
    try:
        r = subprocess.run(["tlapm", "--threads", "4", "Lemmas.tla"], cwd=d, stdout=subprocess.PIPE, stderr=subprocess.STDOUT,
                           text=True, timeout=timeout)
    except subprocess.TimeoutExpired:
        return {"status": "timeout", "seconds": timeout}
    m = re.search(r"All (\d+) obligations proved", r.stdout)
    if m:
        n = int(m.group(1))
        return {"status": "proved", "obligations": n, "discharged": n, "seconds": round(time.time() - t0, 1),
                "module": "spec/Lemmas.tla", "tool": "tlapm (TLAPS), SMT/Zenon/Isabelle back ends"}
    m = re.search(r"(\d+)/(\d+) obligations failed", r.stdout)
    return {"status": "unproved", "failed": int(m.group(1)) if m else -1, "obligations": int(m.group(2)) if m else -1,
            "tail": r.stdout[-400:]}


if __name__ == "__main__":
    import json
    import tempfile
    w = tempfile.mkdtemp(prefix="lemmas-", dir=os.path.join(ROOT, "work") if os.path.isdir(os.path.join(ROOT, "work")) else None)
    try:
        res = prove(w)
    finally:
        shutil.rmtree(w, ignore_errors=True)
    print(json.dumps(res, indent=1))
    raise SystemExit(0 if res["status"] in ("proved", "skipped") else 2)
