# Per-property driver profiles (implementation -> specification direction): which sessions are
# run against the real crate for each property.  Session = list of ops starting with a reset.
import itertools
from gen import G, calls_to_ops, write_ops

ALL_KINDS = ["sr", "rr", "sdes", "bye", "app", "unk", "tfb", "pfb", "custom"]
TYPED = ["sr", "rr", "sdes", "bye", "app", "tfb", "pfb"]
PT = {"sr": 200, "rr": 201, "sdes": 202, "bye": 203, "app": 204, "tfb": 205, "pfb": 206}
MINLEN = {"sr": 28, "rr": 8, "sdes": 4, "bye": 4, "app": 12, "tfb": 12, "pfb": 12}


def reset(sid):
    return {"op": "reset", "sid": sid}


def parse_kind_of(kind):
    """the parser kind matching a builder kind"""
    return {"unk": "packet", "custom": "custom"}.get(kind, kind)


def rt_parse(kind, calls):
    """round-trip parse op(s) of the image just written"""
    if kind == "custom":
        return [{"op": "parse", "kind": "custom", "fam": calls[0]["fam"], "src": "image"}]
    if kind == "unk":
        return [{"op": "parse", "kind": "packet", "src": "image"}]
    if kind == "compound":
        return []
    return [{"op": "parse", "kind": kind, "src": "image"}]


def observe_midway(g, ops, p=0.3):
    """with probability p, observe the builder (size / write / padding) after a proper prefix of its calls:
    the SAME instance is then configured further (the executor replays the observation on it)"""
    r = g.r
    ncalls = sum(1 for o in ops if o["op"] == "call")
    if ncalls > 1 and r.random() < p:
        cut = 1 + r.randrange(1, ncalls)           # ops[0] is the reset
        obs = r.choice([[{"op": "calc_size"}], [{"op": "write_into", "rel": 0, "len": 64, "fill": 1}],
                        [{"op": "calc_size"}, {"op": "get_padding"}, {"op": "write_into", "rel": 0, "len": 64, "fill": 0}]])
        ops = ops[:cut] + obs + ops[cut:]
    return ops


def decoy_for(g, kind, calls):
    """another builder of the same kind, preferably one with the same total size but a different inner split:
    whatever is remembered about it must not leak into the builder under test"""
    r = g.r
    plain = [c for c in calls if c["c"] != "probe"]
    if kind == "compound":
        adds = [c for c in plain if c["c"] == "add_packet"]
        if len(adds) >= 2 and r.random() < 0.6:
            # the same members in reverse order (paddings removed): same count, same total, other split
            rev = []
            for c in reversed(adds):
                m = dict(c["v"])
                m["calls"] = [x for x in m["calls"] if x["c"] != "padding"]
                rev.append({"c": "add_packet", "v": m})
            return "compound", [{"c": "new"}] + rev
        return g.compound(n=len(adds))
    if kind == "bye" and r.random() < 0.6:
        # trade 4 bytes between the reason and the padding
        out, done = [], False
        for c in plain:
            if c["c"] == "reason" and len(c["v"]) >= 5 and not done:
                c = dict(c, v=c["v"][:-4] if all(b < 0x80 for b in c["v"][-5:]) else c["v"])
                done = True
            out.append(c)
        pad = next((c["v"] for c in plain if c["c"] == "padding"), 0)
        out = [c for c in out if c["c"] != "padding"] + [{"c": "padding", "v": min(252, pad + 4)}]
        return "bye", out
    if kind in ("tfb", "pfb") and plain[0]["fci"]["f"] == "nack" and len(plain[0]["fci"]["adds"]) >= 4 and r.random() < 0.6:
        adds = sorted(set(plain[0]["fci"]["adds"]))
        if len(adds) >= 3:
            sib = list(adds)
            i = r.randrange(1, len(sib) - 1)
            sib[i] = (sib[i] + r.choice([1, 2, 17, 40])) % 65536        # same count, smallest and largest kept
            return kind, [dict(plain[0], fci={"f": "nack", "adds": sib})] + plain[1:]
    k, c = g.builder("fb" if kind in ("tfb", "pfb") else kind, small=True)
    return k, c


def unchecked_op(g, kind, calls):
    """write_into_unchecked into exactly the announced size while another builder is sized in between; with
    `fresh` the instance that writes was never sized itself (the size comes from a twin built from the same calls)"""
    dk, dcalls = decoy_for(g, kind, calls)
    o = {"op": "write_unchecked", "fill": g.r.choice([0, 1]), "decoy": {"kind": dk, "calls": [c for c in dcalls if c["c"] != "probe"]}}
    if g.r.random() < 0.3:
        o["fresh"] = True
    return o


def build_session(sid, kind, calls, lens=(0,), fills=(0,), rt=True, extra=(), g=None):
    ops = [reset(sid)] + calls_to_ops(kind, calls)
    if g is not None:
        ops = observe_midway(g, ops)
    ops += [{"op": "calc_size"}]
    for rel in lens:
        for f in fills:
            ops.append({"op": "write_into", "rel": rel, "len": 64, "fill": f})
    if g is not None and g.r.random() < 0.3:
        ops.append(unchecked_op(g, kind, calls))
    if rt:
        # the last write must be a successful one for the round trip to see the image
        if lens[-1] < 0:
            ops.append({"op": "write_into", "rel": 0, "len": 64, "fill": 0})
        ops += rt_parse(kind, calls)
    ops += list(extra)
    return ops


# ------------------------------------------------------------------ round trips C02..C05
def roundtrip(g, n, kinds, sidp, hist=False, pad_sweep=False):
    for i in range(n):
        kind = g.r.choice(kinds)
        k, calls = g.builder(kind, hist=hist)
        yield build_session(f"{sidp}/{i}", k, calls, lens=(g.r.choice([0, 0, 1, 7]),), rt=True, g=g)


def retry_sessions(g, n, kinds, sidp):
    """a configuration that violates one acceptance rule is observed more than once (size, size, write, write): the
    answer must not change, and should a later write succeed after all, the image is parsed back (the round-trip
    properties speak about every packet the builder accepts)"""
    r = g.r
    for i in range(n):
        k, calls = g.builder(r.choice(kinds), hist=r.random() < 0.5, bad=True, small=True)
        obs = r.choice([[{"op": "calc_size"}, {"op": "calc_size"}], [{"op": "write_into", "rel": 0, "len": 64, "fill": 0}],
                        [{"op": "calc_size"}, {"op": "get_padding"}, {"op": "calc_size"}]])
        yield [reset(f"{sidp}/{i}")] + calls_to_ops(k, calls) + obs + [
            {"op": "write_into", "rel": 0, "len": 64, "fill": 0}, {"op": "write_into", "rel": 4, "len": 64, "fill": 1},
            {"op": "calc_size"}] + rt_parse(k, calls)


def c02(g, tier):
    n = 1500 if tier == "quick" else 40000
    yield from long_history_sessions(g, "C02/long", ("sr", "rr"))
    yield from roundtrip(g, n, ["sr", "rr"], "C02/rand", hist=True)
    yield from retry_sessions(g, 150 if tier == "quick" else 4000, ["sr", "rr"], "C02/retry")
    # 31 blocks with extreme loss fields
    for i, (cl, fl) in enumerate(itertools.product([[0, 0], [0, 1], [255, 65535]], [0, 1, 255])):
        for kind in ("sr", "rr"):
            calls = [{"c": "new", "ssrc": g.u32()}] + [
                {"c": "add_rb", "v": [{"c": "new", "ssrc": g.u32()}, {"c": "cumulative", "v": cl}, {"c": "fraction", "v": fl}]}
                for _ in range(31)] + [{"c": "padding", "v": g.r.choice([0, 4, 252])}]
            yield build_session(f"C02/31/{kind}/{i}", kind, calls)
    # every number of report blocks, every block distinguishable (position within a longer list)
    for kind in ("sr", "rr"):
        for nb in (range(0, 32, 3) if tier == "quick" else range(32)):
            calls = [{"c": "new", "ssrc": g.u32()}] + [
                {"c": "add_rb", "v": [{"c": "new", "ssrc": [j, nb]}, {"c": "jitter", "v": [nb, j]}, {"c": "fraction", "v": j}]} for j in range(nb)]
            yield build_session(f"C02/nblocks/{kind}/{nb}", kind, calls + [{"c": "padding", "v": g.r.choice([0, 24, 48, 100])}])


def c03(g, tier):
    n = 1500 if tier == "quick" else 30000
    yield from roundtrip(g, n, ["sdes"], "C03/rand", hist=True)
    yield from retry_sessions(g, 150 if tier == "quick" else 4000, ["sdes"], "C03/retry")
    yield from c03_extra(g, tier)
    # deterministic sweep: last item value length x padding, following chunk with leading-zero SSRC
    step = 1 if tier == "thorough" else 3
    i = 0
    for vlen in range(0, 256, step):
        for pad in (0, 4, 252):
            for ss2 in ([0, 0], [0, 0x22], [0x22, 0x3344]):
                if tier == "quick" and (vlen + pad + ss2[1]) % 4 != 0:
                    continue
                c1 = {"ssrc": g.u32(), "adds": [{"owned": False, "item": [{"c": "new", "type": 1, "value": g.utf8(3)}]},
                                                 {"owned": False, "item": [{"c": "new", "type": g.r.choice([2, 8]), "value": g.utf8(min(vlen, 254))}]}]}
                c2 = {"ssrc": ss2, "adds": [{"owned": True, "item": [{"c": "new", "type": 2, "value": g.utf8(vlen % 7)}]}]}
                calls = [{"c": "new"}, {"c": "add_chunk", "v": c1}, {"c": "add_chunk", "v": c2}, {"c": "padding", "v": pad}]
                yield build_session(f"C03/sweep/{vlen}/{pad}/{i}", "sdes", calls)
                i += 1


def long_history_sessions(g, sidp, kinds=("sr",)):
    """more than 65536 setter calls on one live builder between two observations (counters that wrap)"""
    for kind in kinds:
        for extra in (0, 1):
            ops = [reset(f"{sidp}/{kind}/{extra}")] + calls_to_ops(kind, [{"c": "new", "ssrc": g.u32()}, {"c": "padding", "v": 8}]) + [{"op": "calc_size"}]
            ops += [{"op": "call", "c": {"c": "padding", "v": 4 if i % 2 else 12}} for i in range(65535 + extra)]
            ops += [{"op": "call", "c": {"c": "padding", "v": 4}}, {"op": "calc_size"}, {"op": "write_into", "rel": 0, "len": 64, "fill": 1},
                    {"op": "parse", "kind": kind, "src": "image"}]
            yield ops


def c03_extra(g, tier):
    yield from midsize_sessions(g, "C03/mid", ["sdes"])
    yield from giant_chunk_sessions(g, "C03/giant", build=True)
    yield from item_type_sweep(g, "C03/types")


def c04(g, tier):
    # exhaustive sweep of the arithmetic: reason length x padding x sources
    pads = [0, 4, 8, 252] if tier == "quick" else [0] + list(range(4, 256, 4))
    srcs = [0, 2] if tier == "quick" else [0, 1, 31]
    i = 0
    for rlen in range(0, 256):
        for pad in pads:
            for ns in srcs:
                _, calls = g.bye(hist=False, rlen=rlen, nsrc=ns, pad=pad)
                yield build_session(f"C04/bye/{rlen}/{pad}/{ns}", "bye", calls)
                i += 1
    # APP: subtype x name length x payload length x padding
    plens = [0, 4, 8, 64] if tier == "quick" else list(range(0, 68, 4)) + [1024]
    for st in (range(0, 32, 5) if tier == "quick" else range(32)):
        for nlen in range(5):
            for pl in plens:
                for pad in (0, 4, 8, 252):
                    if tier == "quick" and (st + nlen + pl // 4 + pad // 4) % 3:
                        continue
                    calls = [{"c": "new", "ssrc": g.u32(), "name": [g.r.randrange(0x21, 0x7f) for _ in range(nlen)]},
                             {"c": "subtype", "v": st}, {"c": "data", "v": g.bytes_(pl)}, {"c": "padding", "v": pad}]
                    yield build_session(f"C04/app/{st}/{nlen}/{pl}/{pad}", "app", calls)
    yield from roundtrip(g, 300 if tier == "quick" else 10000, ["bye", "app"], "C04/rand", hist=True)
    yield from retry_sessions(g, 150 if tier == "quick" else 4000, ["bye", "app"], "C04/retry")
    yield from midsize_sessions(g, "C04/mid", ["sizes"])


def c05(g, tier):
    n = 2500 if tier == "quick" else 50000
    for i in range(n):
        k, calls = g.fb(hist=True, big=(g.r.random() < (0.01 if tier == "quick" else 0.03)))
        yield build_session(f"C05/rand/{i}", k, calls, g=g)
    yield from midsize_sessions(g, "C05/mid", ["nack", "fir"])
    yield from retry_sessions(g, 150 if tier == "quick" else 4000, ["fb"], "C05/retry")
    yield from nack_insert_sessions(g, 12 if tier == "quick" else 200, "C05/ins")
    yield from nack_sibling_sessions(g, 60 if tier == "quick" else 2000, "C05/sib")
    yield from nack_regroup_sessions(g, "C05/regroup")
    yield from big_sli_sessions(g, "C05/bigsli")
    # RPSI: every length x ignored bits
    maxlen = 20 if tier == "quick" else 300
    for n_ in range(0, maxlen + 1):
        for bits in (range(0, 9) if n_ else [0]):
            for pad in ((0, 4) if tier == "quick" else (0, 4, 8, 252)):
                data = g.bytes_(n_)
                if n_:
                    data[-1] = g.r.choice([0xff, 0xa5, 0x00])
                fci = {"f": "rpsi", "calls": [{"c": "pt", "v": g.r.choice([0, 96, 127])}, {"c": "data", "v": data, "bits": bits, "mode": g.r.choice(["borrowed", "cow_owned", "owned"])}]}
                calls = [{"c": "new", "fci": fci, "owned": g.r.random() < 0.5}, {"c": "sender", "v": g.u32()}, {"c": "media", "v": g.u32()}, {"c": "padding", "v": pad}]
                yield build_session(f"C05/rpsi/{n_}/{bits}/{pad}", "pfb", calls)


# ------------------------------------------------------------------ writers C06 C07 C17 C16 C20
def any_builder(g, hist=False, bad_p=0.0, small=False, compound_p=0.1):
    r = g.r
    if r.random() < compound_p:
        bad = None
        if r.random() < bad_p:
            bad = r.choice(["member", "padding"])
        return g.compound(bad=bad)
    return g.builder(hist=(hist or r.random() < 0.3), bad=(r.random() < bad_p), small=small)


def wrap_ops(g, kind):
    r = g.r
    ops = []
    if kind not in ("custom", "compound") and r.random() < 0.25:
        ops.append({"op": "wrap", "how": "pb"})
    if r.random() < 0.15:
        ops.append({"op": "wrap", "how": "compound1"})
    return ops


def c06(g, tier):
    n = 2500 if tier == "quick" else 40000
    for i in range(n):
        k, calls = any_builder(g, hist=False, bad_p=0.15, small=(g.r.random() < 0.6))
        ops = observe_midway(g, [reset(f"C06/rand/{i}")] + calls_to_ops(k, calls)) + wrap_ops(g, k) + [{"op": "calc_size"}]
        rels = [-4, -1, 0, 1, 7] if g.r.random() < 0.7 else list(range(-12, 9))
        rels += [-1000000]   # a zero-length buffer
        for rel in rels:
            ops.append({"op": "write_into", "rel": rel, "len": g.r.choice([0, 3, 64]), "fill": 0})
        yield ops
    yield from midsize_sessions(g, "C06/mid", ["sdes", "nack", "fir", "firbig", "sizes"], quick=("c06" if tier == "quick" else False))
    yield from type0_sessions(g, "C06/type0")
    yield from retry_sessions(g, 150 if tier == "quick" else 4000, ["sr", "rr", "sdes", "bye", "app", "unk", "fb", "custom"], "C06/retry")
    yield from nack_sibling_sessions(g, 80 if tier == "quick" else 2000, "C06/sib")
    yield from nack_tiny_universe_sessions(g, 10 if tier == "quick" else 100, "C06/tiny")
    yield from nack_insert_sessions(g, 12 if tier == "quick" else 200, "C06/ins")
    yield from nack_regroup_sessions(g, "C06/regroup")
    for sess in c14_big(g):
        yield [o for o in sess if o["op"] not in ("cparse", "cnext")] + [{"op": "write_into", "rel": 5, "len": 64, "fill": 1}]
    # standalone SDES item / chunk writers
    for i in range(300 if tier == "quick" else 5000):
        bad = g.r.random() < 0.1
        if g.r.random() < 0.5:
            item = g.item_calls(hist=True, bad=bad, vlen=(None if g.r.random() < 0.3 else g.r.randrange(0, 8)))
            yield [reset(f"C06/item/{i}")] + [{"op": "item_write", "item": item, "len": L, "fill": 0} for L in (0, 1, 2, 3, 5, 9, 64, 300, 600)]
        else:
            ch = g.chunk(hist=True, bad=bad, small=g.r.random() < 0.7)
            yield [reset(f"C06/chunk/{i}")] + [{"op": "chunk_write", "chunk": ch, "len": L, "fill": 0} for L in (0, 3, 4, 7, 8, 12, 16, 64, 1200, 4000)]
    # RPSI lengths 0..40 (every residue), with padding
    for n_ in range(0, 41):
        for pad in (0, 4):
            fci = {"f": "rpsi", "calls": [{"c": "data", "v": g.bytes_(n_), "bits": 0}]} if n_ else {"f": "rpsi", "calls": []}
            calls = [{"c": "new", "fci": fci, "owned": False}, {"c": "padding", "v": pad}]
            yield build_session(f"C06/rpsi/{n_}/{pad}", "pfb", calls, lens=(-1, 0, 1), rt=False)


def c07(g, tier):
    n = 3000 if tier == "quick" else 50000
    for i in range(n):
        k, calls = any_builder(g, hist=False, small=(g.r.random() < 0.5), compound_p=0.08)
        big = k in ("tfb", "pfb") and g.r.random() < 0.03
        if big:
            k, calls = g.fb(big=True)
        yield build_session(f"C07/rand/{i}", k, calls, lens=(g.r.choice([0, 0, 3]),), rt=False, g=g)
    yield from c07_extra(g, tier)


def c07_extra(g, tier):
    yield from midsize_sessions(g, "C07/mid", ["sdes", "nack", "fir", "sizes"])
    yield from nack_sibling_sessions(g, 60 if tier == "quick" else 2000, "C07/sib")
    yield from type0_sessions(g, "C07/type0")
    yield from nack_tiny_universe_sessions(g, 4 if tier == "quick" else 100, "C07/tiny")
    yield from nack_insert_sessions(g, 6 if tier == "quick" else 200, "C07/ins")
    yield from rpsi_mode_sweep(g, "C07/rpsi")
    yield from nack_regroup_sessions(g, "C07/regroup")


def c17(g, tier):
    n = 2000 if tier == "quick" else 30000
    for i in range(n):
        k, calls = any_builder(g, hist=False, bad_p=0.15, small=(g.r.random() < 0.6))
        ops = observe_midway(g, [reset(f"C17/rand/{i}")] + calls_to_ops(k, calls)) + [{"op": "calc_size"}]
        rels = [-1, 0, 1, 9] if g.r.random() < 0.7 else list(range(-3, 9))
        rels += [-1000000]
        for rel in rels:
            if g.r.random() < 0.5:
                ops.append({"op": "write_twice", "rel": rel, "len": g.r.choice([0, 5, 64])})
            else:
                for f in (0, 1):
                    ops.append({"op": "write_into", "rel": rel, "len": g.r.choice([0, 5, 64]), "fill": f})
        yield ops
    yield from type0_sessions(g, "C17/type0")
    # a compound with a CONSERVATIVE third-party member (its calculate_size() is an upper bound of what it writes):
    # whatever n the compound reports, those n bytes must not depend on what the buffer held before
    for i in range(120 if tier == "quick" else 3000):
        r = g.r
        n_ = r.randrange(1, 5)
        at = r.randrange(n_)
        members = []
        for j in range(n_):
            if j == at:
                k, calls = g.custom()
                calls = [dict(calls[0], reserve=r.choice([4, 8, 12]))] + [c for c in calls[1:] if c["c"] != "probe"]
            else:
                k, calls = g.builder(r.choice(["rr", "bye", "app", "sdes", "unk"]), small=True)
            if j < n_ - 1:
                calls = [c for c in calls if c["c"] != "padding"]
            members.append({"kind": k, "calls": calls, "pb": False})
        calls = [{"c": "new"}] + [{"c": "add_packet", "v": m} for m in members]
        yield [reset(f"C17/conservative/{i}")] + calls_to_ops("compound", calls) + [
            {"op": "calc_size"}, {"op": "write_twice", "rel": 0, "len": 64}, {"op": "write_twice", "rel": r.choice([1, 5, 12]), "len": 64},
            {"op": "write_into", "rel": -1, "len": 64, "fill": 1}]
    yield from reuse_sessions(g, 60 if tier == "quick" else 2000, "C17/reuse")
    # an oversize APP (see D12) with padding: whatever n is reported, the n bytes must not depend on the prefill
    yield [reset("C17/oversize")] + calls_to_ops("app", [{"c": "new", "ssrc": [0, 1], "name": [65]}, {"c": "data", "v": [], "big": {"rep": 7, "n": 262144}},
                                                          {"c": "padding", "v": 8}]) + [{"op": "calc_size"}, {"op": "write_twice", "rel": 4, "len": 64}]
    for sess in midsize_sessions(g, "C17/mid", ["sdes", "nack", "fir"]):
        yield [o for o in sess if o["op"] not in ("parse", "write_into")] + [{"op": "write_twice", "rel": 5, "len": 64}]
    for i in range(200 if tier == "quick" else 3000):
        if g.r.random() < 0.5:
            item = g.item_calls(hist=False, bad=g.r.random() < 0.1, vlen=g.r.randrange(0, 8))
            yield [reset(f"C17/item/{i}")] + [{"op": "item_write", "item": item, "len": L, "fill": f} for L in (0, 2, 5, 9, 64) for f in (0, 1)]
        else:
            ch = g.chunk(small=True)
            yield [reset(f"C17/chunk/{i}")] + [{"op": "chunk_write", "chunk": ch, "len": L, "fill": f} for L in (0, 4, 8, 12, 64) for f in (0, 1)]
    # rejected stand-alone chunks and items (a value or PRIV prefix + value beyond the length octet) into buffers that
    # would be large enough: a failed write leaves the whole buffer unchanged
    for i in range(60 if tier == "quick" else 1500):
        if g.r.random() < 0.6:
            ch = g.chunk(hist=False, bad=True, small=True)
            yield [reset(f"C17/badchunk/{i}")] + [{"op": "chunk_write", "chunk": ch, "len": L, "fill": f} for L in (0, 64, 300, 600, 1200) for f in (0, 1)]
        else:
            item = g.item_calls(hist=False, bad=True)
            yield [reset(f"C17/baditem/{i}")] + [{"op": "item_write", "item": item, "len": L, "fill": f} for L in (0, 64, 300, 600) for f in (0, 1)]


def c16(g, tier):
    n = 3000 if tier == "quick" else 50000
    for i in range(n):
        k, calls = any_builder(g, hist=False, bad_p=0.5, small=(g.r.random() < 0.7), compound_p=0.12)
        yield build_session(f"C16/rand/{i}", k, calls, lens=(0,), rt=False, g=g)
    yield from retry_sessions(g, 200 if tier == "quick" else 5000, ["sr", "rr", "sdes", "bye", "app", "unk", "fb", "custom"], "C16/retry")
    # limits from both sides
    i = 0
    for kind in ("sr", "rr"):
        for nb in (30, 31, 32, 33, 255, 256, 257, 287, 288):
            _, calls = g.report(kind, nblocks=nb)
            yield build_session(f"C16/blocks/{kind}/{nb}", kind, calls, rt=False)
        for hi in (254, 255, 256, 257, 65535):
            calls = [{"c": "new", "ssrc": g.u32()}, {"c": "add_rb", "v": [{"c": "new", "ssrc": g.u32()}, {"c": "cumulative", "v": [hi, g.r.choice([0, 65535])]}]}]
            yield build_session(f"C16/cumulative/{kind}/{hi}", kind, calls, rt=False)
    for ns in (30, 31, 32, 33, 255, 256, 257, 260, 287, 288, 512, 543):
        _, calls = g.bye(nsrc=ns, rlen=3, pad=0)
        yield build_session(f"C16/sources/{ns}", "bye", calls, rt=False)
    for rl in (254, 255, 256, 257):
        _, calls = g.bye(nsrc=1, rlen=rl, pad=0)
        yield build_session(f"C16/reason/{rl}", "bye", calls, rt=False)
    for nc in (30, 31, 32, 33, 255, 256, 257, 287, 288):
        _, calls = g.sdes(nchunks=nc, small=True)
        yield build_session(f"C16/chunks/{nc}", "sdes", calls, rt=False)
    for vl in (254, 255, 256, 257):
        for ty in (1, 255):
            ch = {"ssrc": g.u32(), "adds": [{"owned": False, "item": [{"c": "new", "type": ty, "value": g.utf8(vl)}]}]}
            yield build_session(f"C16/value/{ty}/{vl}", "sdes", [{"c": "new"}, {"c": "add_chunk", "v": ch}], rt=False)
    for tot in (253, 254, 255, 256):
        for pl in sorted({0, 1, tot // 2, tot - 1, tot}):
            ch = {"ssrc": g.u32(), "adds": [{"owned": False, "item": [{"c": "new", "type": 8, "value": g.utf8(tot - pl)}, {"c": "prefix", "v": g.bytes_(pl)}]}]}
            yield build_session(f"C16/priv/{tot}/{pl}", "sdes", [{"c": "new"}, {"c": "add_chunk", "v": ch}], rt=False)
    for name in ([], [65], [65, 66, 67, 68], [65, 66, 67, 68, 69], [127, 65], [65, 0, 66], list("é".encode()), [65, 66] + list("é".encode()),
                 list("é".encode()) + [65, 66], [65] + list("é".encode()) + [66]):
        calls = [{"c": "new", "ssrc": g.u32(), "name": name}]
        yield build_session(f"C16/name/{'-'.join(map(str, name))}", "app", calls, rt=False)
    for st in (30, 31, 32, 33, 255):
        yield build_session(f"C16/subtype/{st}", "app", [{"c": "new", "ssrc": g.u32(), "name": [65]}, {"c": "subtype", "v": st}], rt=False)
    for dl in range(0, 10):
        yield build_session(f"C16/appdata/{dl}", "app", [{"c": "new", "ssrc": g.u32(), "name": [65]}, {"c": "data", "v": g.bytes_(dl)}], rt=False)
        yield build_session(f"C16/unkdata/{dl}", "unk", [{"c": "new", "type": 77, "data": g.bytes_(dl)}], rt=False)
    for cnt in (30, 31, 32, 33, 255):
        yield build_session(f"C16/count/{cnt}", "unk", [{"c": "new", "type": 77, "data": []}, {"c": "count", "v": cnt}], rt=False)
    for p in range(256):
        kind = ALL_KINDS[p % len(ALL_KINDS)]
        k, calls = g.builder(kind, small=True)
        calls = [c for c in calls if c["c"] != "padding"] + [{"c": "padding", "v": p}]
        yield build_session(f"C16/padding/{p}", k, calls, rt=False)
    for pt in (126, 127, 128, 129, 255):
        fci = {"f": "rpsi", "calls": [{"c": "pt", "v": pt}, {"c": "data", "v": [1, 2], "bits": 0}]}
        yield build_session(f"C16/rpsipt/{pt}", "pfb", [{"c": "new", "fci": fci, "owned": False}], rt=False)
    for n_ in (0, 1, 2):
        for bits in (0, 1, 7, 8, 9, 255):
            fci = {"f": "rpsi", "calls": [{"c": "data", "v": g.bytes_(n_), "bits": bits}]}
            yield build_session(f"C16/rpsibits/{n_}/{bits}", "pfb", [{"c": "new", "fci": fci, "owned": True}], rt=False)
    for kind in ("tfb", "pfb"):
        for f in ("nack", "pli", "sli", "rpsi", "fir"):
            yield build_session(f"C16/fbkind/{kind}/{f}", kind, [{"c": "new", "fci": g.fci(f), "owned": g.r.random() < 0.5}], rt=False)
    yield from midsize_sessions(g, "C16/mid", ["firbig"], quick=("c16" if tier == "quick" else False))
    yield from exact_max_sessions(g, "C16/max")
    # total size above 65536 words
    for nbytes in (262140 - 12, 262144 - 12, 262148 - 12):
        yield build_session(f"C16/big/app/{nbytes}", "app", [{"c": "new", "ssrc": [0, 1], "name": [65]}, {"c": "data", "v": [], "big": {"rep": 7, "n": nbytes}}], rt=False)
    for nbytes in (262140 - 4, 262144 - 4, 262148 - 4):
        yield build_session(f"C16/big/unk/{nbytes}", "unk", [{"c": "new", "type": 77, "data": [], "big": {"rep": 7, "n": nbytes}}], rt=False)
    for n_ in (262128, 262132):      # 12 + pad4(2 + n) = 262144 / 262148
        fci = {"f": "rpsi", "calls": [{"c": "data", "v": [5] * n_, "bits": 0, "mode": "borrowed"}]}
        yield build_session(f"C16/big/rpsi/{n_}", "pfb", [{"c": "new", "fci": fci, "owned": False}], rt=False)
    for e in (65533, 65534):         # 12 + 4 e = 262144 / 262148
        fci = {"f": "sli", "adds": [[i % 8192, 1, i % 64] for i in range(e)]}
        yield build_session(f"C16/big/sli/{e}", "pfb", [{"c": "new", "fci": fci, "owned": True}], rt=False)
    for k in (1019, 1020):           # 4 + pad4(4 + 257 k + 1) = 261892 / 262152
        ch = {"ssrc": [1, 2], "adds": [{"owned": False, "item": [{"c": "new", "type": 1 + i % 7, "value": [0x41 + i % 26] * 255}]} for i in range(k)]}
        yield build_session(f"C16/big/sdes/{k}", "sdes", [{"c": "new"}, {"c": "add_chunk", "v": ch}], rt=False)


def c20(g, tier):
    n = 3000 if tier == "quick" else 50000
    yield from long_history_sessions(g, "C20/long", ("sr",))
    r0 = g.r
    for i in range(60 if tier == "quick" else 1500):
        k = r0.randrange(18, 64)
        adds = [[g._u32(), r0.randrange(256)] for _ in range(k)]
        for _ in range(r0.randrange(1, 4)):
            adds.insert(r0.randrange(len(adds) + 1), [r0.choice(adds)[0], r0.randrange(256)])   # re-add an SSRC somewhere
        calls = [{"c": "new", "fci": {"f": "fir", "adds": adds}, "owned": r0.random() < 0.5}]
        yield build_session(f"C20/firlong/{i}", "pfb", calls, rt=True)
    yield from midsize_sessions(g, "C20/mid", ["fir"])
    yield from rpsi_mode_sweep(g, "C20/rpsi")
    yield from retry_sessions(g, 150 if tier == "quick" else 4000, ["sr", "rr", "sdes", "bye", "app", "unk", "fb", "custom"], "C20/retry")
    yield from nack_insert_sessions(g, 12 if tier == "quick" else 200, "C20/ins")
    for i in range(n):
        r = g.r
        if r.random() < 0.1:
            k, calls = g.compound()
        else:
            k, calls = g.builder(hist=True, bad=(r.random() < 0.1), small=(r.random() < 0.7))
        ops = [reset(f"C20/rand/{i}")] + calls_to_ops(k, calls)
        # interleave intermediate observations: every prefix of a history is a history
        if r.random() < 0.3 and len(calls) > 2:
            cut = r.randrange(1, len(calls))
            ops = ops[:1 + cut] + [{"op": "calc_size"}, {"op": "write_into", "rel": 0, "len": 64, "fill": 0}] + ops[1 + cut:]
        ops += wrap_ops(g, k)
        ops += [{"op": "calc_size"}, {"op": "get_padding"}]
        if r.random() < 0.3 and not any(o.get("op") == "wrap" for o in ops):
            ops.append(unchecked_op(g, k, calls))
        ops += [{"op": "write_into", "rel": r.choice([0, 0, 2, -1]), "len": 64, "fill": 0}]
        yield ops



def midsize_sessions(g, sidp, what, quick=False):
    """structures larger than a handful of elements but below the maxima, where narrow counters wrap"""
    r = g.r
    if "sdes" in what:
        for k in (254, 255, 256, 257, 300):        # items in one chunk
            ch = {"ssrc": g.u32(), "adds": [{"owned": False, "item": [{"c": "new", "type": 1 + i % 7, "value": [0x41 + i % 26] * (i % 3)}]} for i in range(k)]}
            yield build_session(f"{sidp}/items/{k}", "sdes", [{"c": "new"}, {"c": "add_chunk", "v": ch}], rt=True)
        for k in (8, 9, 12, 40):                   # items of maximal length in one chunk
            ch = {"ssrc": g.u32(), "adds": [{"owned": False, "item": [{"c": "new", "type": 1 + i % 7, "value": [0x61 + i % 26] * 255}]} for i in range(k)]}
            ch2 = {"ssrc": g.u32(), "adds": []}
            yield build_session(f"{sidp}/bigitems/{k}", "sdes", [{"c": "new"}, {"c": "add_chunk", "v": ch2}, {"c": "add_chunk", "v": ch}], rt=True)
        # one chunk above 65535 bytes
        ch = {"ssrc": [1, 2], "adds": [{"owned": False, "item": [{"c": "new", "type": 2, "value": [0x41 + i % 26] * 255}]} for i in range(260)]}
        yield build_session(f"{sidp}/chunk64k", "sdes", [{"c": "new"}, {"c": "add_chunk", "v": ch}], rt=True)
    if "nack" in what:
        for k in (255, 256, 257, 300):             # (PID, BLP) words
            adds = [(1000 + 20 * i) % 65536 for i in range(k)]
            calls = [{"c": "new", "fci": {"f": "nack", "adds": adds}, "owned": False}, {"c": "sender", "v": g.u32()}]
            yield build_session(f"{sidp}/nackwords/{k}", "tfb", calls, rt=True)
        calls = [{"c": "new", "fci": {"f": "nack", "adds": [(60000 + i) % 65536 for i in range(4400)]}, "owned": True}]
        yield build_session(f"{sidp}/nackrun/4400", "tfb", calls, rt=True)
        # gap-free runs whose span reaches the top of the 16-bit sequence space (the longest runs there are), the
        # whole space, and the set that needs the largest number of (PID, BLP) words
        for (lo, hi, step, nm) in ((0, 65519, 1, "run0"), (16, 65535, 1, "run16"), (0, 65535, 1, "all"), (3, 65535, 17, "sparse")):
            calls = [{"c": "new", "fci": {"f": "nack", "adds": list(range(lo, hi + 1, step))}, "owned": nm == "all"}]
            yield build_session(f"{sidp}/nackmax/{nm}", "tfb", calls, rt=(nm in ("run0", "sparse")))
    if "fir" in what:
        for k in (255, 256, 257, 300):
            adds = [[[i // 7, (i * 37) % 65536], i % 256] for i in range(k)]
            yield build_session(f"{sidp}/fir/{k}", "pfb", [{"c": "new", "fci": {"f": "fir", "adds": adds}, "owned": False}], rt=True)
        for k in (257, 300, 600):                  # SSRCs added again after more than 255 / 511 others
            adds = [[[i // 7, (i * 37) % 65536], i % 256] for i in range(k)]
            for j in (k - 1, 256, 7, 280 % k, 255, 513 % k):
                adds.append([adds[j][0], (adds[j][1] + 101) % 256])
            yield build_session(f"{sidp}/firagain/{k}", "pfb", [{"c": "new", "fci": {"f": "fir", "adds": adds}, "owned": k == 300}], rt=True)
        for k in (255, 256, 300):
            adds = [[i % 8192, (i * 5) % 8192, i % 64] for i in range(k)]
            yield build_session(f"{sidp}/sli/{k}", "pfb", [{"c": "new", "fci": {"f": "sli", "adds": adds}, "owned": True}], rt=True)
    if "firbig" in what:
        for k in ((8192, 32766) if quick == "c06" else (32766, 32767) if quick == "c16" else (8191, 8192, 32766, 32767)):
            # FIR entries: 16-bit arithmetic, and both sides of the 65536-word limit
            adds = [[[i // 65536 + 1, i % 65536], i % 256] for i in range(k)]
            yield build_session(f"{sidp}/firbig/{k}", "pfb", [{"c": "new", "fci": {"f": "fir", "adds": adds}, "owned": False}], rt=False)
    if "sizes" in what:
        # total sizes at multiples of 256 words and neighbours (the two bytes of the length field)
        for tot in (1020, 1024, 1028, 2048, 4096, 65536, 65540, 131072):
            yield build_session(f"{sidp}/appsize/{tot}", "app", [{"c": "new", "ssrc": g.u32(), "name": [65, 66]},
                                {"c": "data", "v": [], "big": {"rep": 3, "n": tot - 12}}], rt=True)
            yield build_session(f"{sidp}/unksize/{tot}", "unk", [{"c": "new", "type": 99, "data": [], "big": {"rep": 4, "n": tot - 8}},
                                {"c": "padding", "v": 4}], rt=True)



def nack_sibling_sessions(g, n, sidp):
    """two different NACK sets that agree on size, minimum, maximum and on the sum (or the xor) of their members,
    built back to back: whatever one builder produced must not leak into the next"""
    r = g.r
    for i in range(n):
        big = r.random() < 0.3
        k = (r.randrange(1030, 1100) if r.random() < 0.2 else r.randrange(64, 90)) if big else r.choice([2, 2, 3, 4, 5, 6, 7, 8])
        base = sorted(r.sample(range(1, 40000 if k > 1000 else 4000 if big else 400), k))
        a = list(base)
        b = list(base)
        x, y = r.sample(range(1, k - 1), 2) if k > 3 else (0, 1)
        mode = r.random()
        if mode < 0.3 and not big:
            a = r.sample(range(0, 60), k)   # insertion order matters for running hashes h = h * m + x
            b = list(a)
            j = r.randrange(0, k - 1)
            m = r.choice([31, 31, 33, 17])
            b[j] += 1
            b[j + 1] -= m
            if b[j + 1] < 0 or len(set(b)) != k:
                continue
            off = r.choice([0, 1000])
            ops = [reset(f"{sidp}/poly/{i}")]
            for adds in (a, b, a):
                calls = [{"c": "new", "fci": {"f": "nack", "adds": [(off + v) % 65536 for v in adds]}, "owned": r.random() < 0.5}]
                ops += calls_to_ops("tfb", calls) + [{"op": "calc_size"}, {"op": "write_into", "rel": 0, "len": 64, "fill": 0},
                                                     {"op": "parse", "kind": "tfb", "src": "image"}]
            yield ops
            continue
        if k < 4:
            continue
        if mode < 0.65:
            d = r.randrange(1, 8)
            b[x] += d
            b[y] -= d                       # same sum
        else:
            bit = 1 << r.randrange(0, 4)
            b[x] ^= bit
            b[y] ^= bit                     # same xor
        b = sorted(set(v for v in b if 0 < v < 40000))
        if len(b) != len(a) or b == a or b[0] != a[0] or b[-1] != a[-1]:
            continue
        off = r.choice([0, 1000, 65000])
        ops = [reset(f"{sidp}/{i}")]
        for adds in (a, b, a):
            calls = [{"c": "new", "fci": {"f": "nack", "adds": [(off + v) % 65536 for v in adds]}, "owned": r.random() < 0.5}]
            ops += calls_to_ops("tfb", calls) + [{"op": "calc_size"}, {"op": "write_into", "rel": 0, "len": 64, "fill": 0},
                                                 {"op": "parse", "kind": "tfb", "src": "image"}]
        yield ops


def nack_regroup_sessions(g, sidp):
    """two NACK sets with the same size, smallest and largest member, one dense (few words) and one spread (many
    words), sized and written one after the other, in both orders"""
    for k in (8, 64, 1030):
        dense = list(range(1000, 1000 + k - 1)) + [40000]
        spread = [1000] + [1100 + 20 * i for i in range(k - 2)] + [40000]
        for order in ((dense, spread, dense), (spread, dense, spread)):
            ops = [reset(f"{sidp}/{k}/{'ds' if order[0] is dense else 'sd'}")]
            for adds in order:
                calls = [{"c": "new", "fci": {"f": "nack", "adds": adds}, "owned": False}]
                ops += calls_to_ops("tfb", calls) + [{"op": "calc_size"}, {"op": "write_into", "rel": 0, "len": 64, "fill": 1}]
            yield ops


def big_sli_sessions(g, sidp):
    for k in (16383, 16384, 16385, 20000):
        adds = [[i % 8192, (i * 3) % 8192, i % 64] for i in range(k)]
        yield build_session(f"{sidp}/{k}", "pfb", [{"c": "new", "fci": {"f": "sli", "adds": adds}, "owned": False}], rt=True)


def type0_sessions(g, sidp):
    """an item builder given type 0 (the list terminator): what is announced must still be what is written"""
    for i, items in enumerate(([[0, [0x61, 0x62]]], [[1, [0x61]], [0, []], [2, [0x62, 0x63]]], [[0, [0x61] * 5], [8, [0x62]]])):
        ch = {"ssrc": g.u32(), "adds": [{"owned": False, "item": [{"c": "new", "type": t, "value": v}]} for t, v in items]}
        yield [reset(f"{sidp}/chunk/{i}")] + [{"op": "chunk_write", "chunk": ch, "len": L, "fill": f} for L in (0, 7, 8, 15, 16, 64) for f in (0, 1)]
        yield [reset(f"{sidp}/sdes/{i}")] + calls_to_ops("sdes", [{"c": "new"}, {"c": "add_chunk", "v": ch}, {"c": "padding", "v": 4}]) + [
            {"op": "calc_size"}, {"op": "write_twice", "rel": 3, "len": 64}, {"op": "write_into", "rel": -1, "len": 64, "fill": 1}]


def many_chunks_sessions(g, sidp):
    """SDES bodies with 31 and more chunks, well-formed up to a defect in the very last one"""
    r = g.r
    for n in (30, 31, 32, 33, 40):
        for tail in ("ok", "overrun", "fill", "privprefix"):
            body = []
            for i in range(n - 1):
                body += [0, 0, i + 1, 7, 1, 1, 0x41 + i % 26, 0]            # ssrc, CNAME of one byte, terminator
            last = {"ok": [0, 0, 9, 9, 1, 1, 0x5a, 0], "overrun": [0, 0, 9, 9, 1, 9, 0x5a, 0], "fill": [0, 0, 9, 9, 1, 0, 0, 7],
                    "privprefix": [0, 0, 9, 9, 8, 2, 5, 0x5a, 0, 0, 0, 0]}[tail]
            body += last
            b = hdr(2, False, n % 32, 202, (4 + len(body)) // 4 - 1) + body
            yield [reset(f"{sidp}/{n}/{tail}"), {"op": "parse", "kind": "sdes", "b": b}, {"op": "parse_all", "b": b}]


def Variant_of(pt):
    return {200: "sr", 201: "rr", 202: "sdes", 203: "bye", 204: "app", 205: "tfb", 206: "pfb"}.get(pt, "unknown")


def reparse_sessions(g, n, sidp):
    """a datagram is parsed, then a buffer of the SAME length (allocated right after the first was freed) with a
    defect somewhere: nothing remembered from the first parse may decide the second"""
    r = g.r
    T = [[0x80, 203, 0, 0], [0x81, 203, 0, 1, 1, 2, 3, 4], [0x80, 201, 0, 1, 9, 9, 9, 9], [0x80, 77, 0, 1, 5, 6, 7, 8]]
    ODD = [[0x40, 77, 0, 1, 5, 6, 7, 8], [0xc0, 242, 0, 0], [0x00, 0, 0, 0], [0x40, 203, 0, 0]]     # other versions
    for i in range(n):
        # a tile of another version (known or unknown type) in the middle of a datagram: iteration stops there
        if i % 4 == 0:
            k2 = r.randrange(1, 4)
            b2 = []
            for _ in range(k2):
                b2 += r.choice(T)
            b2 += r.choice(ODD)
            for _ in range(r.randrange(0, 3)):
                b2 += r.choice(T)
            yield [reset(f"{sidp}/odd/{i}"), {"op": "cparse", "b": b2}] + [{"op": "cnext"}] * (k2 + 3)
        k = r.choice([2, 3, 5, 16, 17, 20, 24, 40])
        b = []
        for _ in range(k):
            b += r.choice(T)
        bad = list(b)
        tiles = tiles_of(b)
        t = r.choice(tiles)
        bad[t[0] + 3] = (bad[t[0] + 3] + r.choice([1, 2, 5])) % 256          # one length field changed in place
        iterate = r.random() < 0.5
        ops = [reset(f"{sidp}/{i}"), {"op": "cparse", "b": b}]
        if iterate:
            ops += [{"op": "cnext"}] * r.randrange(1, k + 2)
        ops += [{"op": "cparse", "b": bad}] + [{"op": "cnext"}] * 3 + [{"op": "cparse", "b": b}, {"op": "cnext"}]
        yield ops
        # the other way round: a datagram whose chain breaks at its last tile, then a well-formed one of the same
        # length that starts with the same packet but is cut differently behind it, then the broken one again
        if len(tiles) >= 3:
            trunc = list(b)
            trunc[tiles[-1][0] + 3] = (trunc[tiles[-1][0] + 3] + r.choice([1, 3])) % 256
            first = b[:tiles[0][1]]
            rest = len(b) - len(first)
            other = list(first)
            while rest > 0:
                t2 = r.choice([x for x in T if len(x) <= rest])
                other += t2
                rest -= len(t2)
            ops = [reset(f"{sidp}/regroup/{i}"), {"op": "cparse", "b": trunc}]
            if r.random() < 0.5:
                ops += [{"op": "cnext"}]
            ops += [{"op": "cparse", "b": other}] + [{"op": "cnext"}] * r.randrange(0, 4) + [{"op": "cparse", "b": trunc}, {"op": "cparse", "b": b}, {"op": "cnext"}]
            yield ops
        # a compound iterated to its end (last tile of an unknown type), then a misframed string for a typed parser
        kind = r.choice(TYPED)
        mn = MINLEN[kind]
        wrong = hdr(2, False, 0, PT[kind], mn // 4 - 1 + r.choice([1, 4])) + g.bytes_(mn - 4)
        comp = r.choice(T[:3]) + T[3]
        lean = r.random() < 0.7
        nx = {"op": "cnext", "lean": True} if lean else {"op": "cnext"}
        yield [reset(f"{sidp}/after/{i}"), {"op": "cparse", "b": comp}, nx, nx] + ([nx] if r.random() < 0.5 else []) + [
               {"op": "parse", "kind": kind, "b": wrong}, {"op": "parse_all", "b": wrong}]
        # the same for the single-packet parsers
        p1 = r.choice(T[1:])
        p2 = list(p1)
        p2[r.choice([0, 1, 3])] ^= r.choice([1, 0x40, 0x80])
        yield [reset(f"{sidp}/pkt/{i}"), {"op": "parse_all", "b": p1}, {"op": "parse_all", "b": p2}, {"op": "parse_all", "b": p1}]
        # a well-formed PADDED packet, then the same bytes with another final byte (zero, too large, not a multiple
        # of 4) or another body byte: same header, same length - and the first one again
        PADDED = [[0xa1, 203, 0, 2, 1, 2, 3, 4, 0, 0, 0, 4], [0xa0, 201, 0, 3, 9, 9, 9, 9, 0, 0, 0, 0, 0, 0, 0, 8],
                  [0xa2, 204, 0, 4, 1, 2, 3, 4, 65, 66, 67, 68, 7, 7, 7, 7, 0, 0, 0, 4], [0xa0, 77, 0, 2, 5, 6, 7, 8, 0, 0, 0, 4],
                  [0xa1, 202, 0, 3, 0, 0, 0, 1, 1, 1, 65, 0, 0, 0, 0, 4], [0xa1, 205, 0, 4, 0, 0, 0, 1, 0, 0, 0, 2, 0, 7, 0, 1, 0, 0, 0, 4]]
        q1 = r.choice(PADDED)
        q2 = list(q1)
        if r.random() < 0.7:
            q2[-1] = r.choice([0, 0, 1, 3, 8, 12, 255])
        else:
            q2[r.randrange(4, len(q2) - 1)] ^= r.choice([1, 0x80])
        opn = r.choice(["parse_all", "parse_all", "kind"])
        mk = (lambda b: {"op": "parse_all", "b": b}) if opn == "parse_all" else (lambda b: {"op": "parse", "kind": Variant_of(b[1]), "b": b})
        yield [reset(f"{sidp}/padpkt/{i}"), mk(q1), mk(q2), mk(q1), mk(q2)]


def nack_pair_sessions(g, n, sidp):
    r = g.r
    for i in range(n):
        def lst():
            out = []
            for _ in range(r.randrange(0, 4)):
                pid = r.choice([0, 1, 100, 0xffef, 0xffff, r.randrange(65536)])
                blp = r.choice([0, 1, 0x8000, 0xffff, r.randrange(65536)])
                out += [pid >> 8, pid & 0xff, blp >> 8, blp & 0xff]
            return out
        yield [reset(f"{sidp}/{i}"), {"op": "nack_pair", "a": lst(), "b": lst()}, {"op": "nack_pair", "a": lst(), "b": lst()}]


def reuse_sessions(g, n, sidp):
    """the output buffer still holds a previously written packet (prefill mode 4): first a packet whose tail looks
    like a padding trailer, then a padded packet of the same size written over it, and the same into a fresh buffer"""
    r = g.r
    for i in range(n):
        p = r.choice([8, 12, 16, 252])
        words = r.randrange(p // 4 + 1, p // 4 + 6)
        data1 = [r.randrange(1, 256) for _ in range(4 * words - 4)] + [0, 0, 0, p]
        data2 = [r.randrange(1, 256) for _ in range(4 * words - p)]
        ssrc = g.u32()
        ops = [reset(f"{sidp}/{i}")] + calls_to_ops("app", [{"c": "new", "ssrc": ssrc, "name": [65, 66]}, {"c": "data", "v": data1}]) + [
            {"op": "calc_size"}, {"op": "write_into", "rel": 4, "len": 64, "fill": 1}]
        ops += calls_to_ops("app", [{"c": "new", "ssrc": ssrc, "name": [67]}, {"c": "data", "v": data2}, {"c": "padding", "v": p}]) + [
            {"op": "calc_size"}, {"op": "write_into", "rel": 4, "len": 64, "fill": 4}, {"op": "write_into", "rel": 4, "len": 64, "fill": 0},
            {"op": "write_into", "rel": 4, "len": 64, "fill": 4}]
        yield ops
    # every kind of builder with padding written into a dirty buffer that happens to hold a trailer-like word
    # at the end of the announced size (prefill mode 5), and the same into a differently filled buffer
    for i in range(n):
        k, calls = g.builder(r.choice(["sr", "rr", "sdes", "bye", "app", "unk", "tfb", "pfb", "custom"]), small=True)
        calls = [c for c in calls if c["c"] != "padding"] + [{"c": "padding", "v": r.choice([8, 12, 16, 24, 252])}]
        yield [reset(f"{sidp}/trailer/{i}")] + calls_to_ops(k, calls) + [{"op": "calc_size"}, {"op": "write_into", "rel": 4, "len": 64, "fill": 5},
                                                                          {"op": "write_into", "rel": 4, "len": 64, "fill": 0}]
    # random builders written over whatever the previous write of the session left in the buffer
    for i in range(n):
        k1, c1 = g.builder(small=True)
        k2, c2 = g.builder(k1 if k1 != "custom" else None, small=True)
        yield [reset(f"{sidp}/rand/{i}")] + calls_to_ops(k1, c1) + [{"op": "calc_size"}, {"op": "write_into", "rel": 8, "len": 64, "fill": 1}] + \
            calls_to_ops(k2, c2) + [{"op": "calc_size"}, {"op": "write_into", "rel": 8, "len": 64, "fill": 4}, {"op": "write_into", "rel": 8, "len": 64, "fill": 0}]

def giant_chunk_sessions(g, sidp, build=False):
    """one SDES chunk with 65536 and more (empty) items: counters of 16 bits wrap"""
    for k in (65535, 65536, 70001):
        if build:
            ch = {"ssrc": [7, 7], "adds": [{"owned": False, "item": [{"c": "new", "type": 1 + i % 7, "value": []}]} for i in range(k)]}
            yield build_session(f"{sidp}/build/{k}", "sdes", [{"c": "new"}, {"c": "add_chunk", "v": ch}], rt=True)
        else:
            body = [0, 7, 0, 7]
            for i in range(k):
                body += [1 + i % 7, 0]
            body += [0]
            body += [0] * (-len(body) % 4)
            b = hdr(2, False, 1, 202, (4 + len(body)) // 4 - 1) + body
            yield [reset(f"{sidp}/parse/{k}"), {"op": "parse", "kind": "sdes", "b": b}]



def padding_count_sweep(g, sidp):
    """padding bit set: the final byte against the room behind the fixed part, for every packet type, at lengths
    below and above 256 bytes"""
    r = g.r
    for kind in TYPED:
        mn = MINLEN[kind]
        for ln in sorted({mn, mn + 4, mn + 8, 252, 256, 260, 264, 268, 272, 284, 512, 1028} - set(range(0, mn))):
            room = ln - mn
            for last in sorted({0, 1, 3, 4, 5, max(0, room - 4) % 256, room % 256, (room + 1) % 256, (room + 4) % 256, 252, 255}):
                cnt = 0
                b = hdr(2, True, cnt, PT[kind], ln // 4 - 1) + [0] * (ln - 4)
                if kind == "sdes" and ln >= 12:
                    b[4:12] = [0, 0, 0, 9, 1, 1, 65, 0]
                    b[0] |= 1
                b[-1] = last
                yield [reset(f"{sidp}/{kind}/{ln}/{last}"), {"op": "parse_all", "b": b}]


def bye_body_sweep(g, sidp):
    """short BYE bodies completely: count, reason length byte, padding bit and final byte"""
    for cnt in (0, 1):
        for ln in (8, 12, 16):
            for p in (False, True):
                for rl in list(range(0, 13)) + [255]:
                    for last in ((0, 1, 2, 3, 4, 5, 8, 255) if p else (0,)):
                        body = [9] * (4 * cnt) + [rl] + [0x61 + i % 26 for i in range(ln - 4 - 4 * cnt - 1)]
                        body = body[:ln - 4]
                        b = hdr(2, p, cnt, 203, ln // 4 - 1) + body
                        if len(b) != ln:
                            continue
                        if p:
                            b[-1] = last
                        yield [reset(f"{sidp}/{cnt}/{ln}/{int(p)}/{rl}/{last}"), {"op": "parse_all", "b": b}]


def huge_direct_sessions(g, sidp):
    """direct entry points on slices whose length only fits the expectation modulo 2^16"""
    for ln in (65536 + 24, 65536 + 10, 131072 + 24, 65536, 65560):
        yield [reset(f"{sidp}/rb/{ln}"), {"op": "parse", "kind": "rb", "b": {"rep": 7, "n": ln}}]
    for ln in (65536, 131072, 65540):
        yield [reset(f"{sidp}/pli/{ln}"), {"op": "parse", "kind": "pli", "b": {"rep": 0, "n": ln}}]
        b = hdr(2, False, 1, 206, (12 + ln) // 4 - 1) + [0, 0, 0, 1, 0, 0, 0, 2] + [0] * ln
        yield [reset(f"{sidp}/pfb1/{ln}"), {"op": "parse", "kind": "pfb", "b": b}]


def max_packet_sessions(g, sidp, op="parse_all", kinds=("app", "unk", "rr", "pfb")):
    """single packets of the largest representable size (length field 0xffff: 262144 bytes) and one word less,
    unpadded and padded, through the generic parser, every typed parser and the conversions"""
    for nm in kinds:
        for total in (262144, 262140):
            for pad in (0, 8):
                if nm == "app":
                    b = hdr(2, pad > 0, 3, 204, total // 4 - 1) + [0, 1, 2, 3, 65, 66, 67, 68] + [5] * (total - 12)
                elif nm == "unk":
                    b = hdr(2, pad > 0, 0, 77, total // 4 - 1) + [6] * (total - 4)
                elif nm == "rr":
                    b = hdr(2, pad > 0, 1, 201, total // 4 - 1) + [9, 8, 7, 6] + [3] * 24 + [7] * (total - 32)
                else:
                    b = hdr(2, pad > 0, 15, 206, total // 4 - 1) + [0, 0, 0, 1, 0, 0, 0, 2] + [82, 69, 77, 66] + [1] * (total - 16)
                if pad:
                    b[-pad:] = [0] * (pad - 1) + [pad]
                o = {"op": op, "b": b}
                if op == "parse":
                    o["kind"] = {"app": "app", "unk": "unknown", "rr": "rr", "pfb": "pfb"}[nm]
                yield [reset(f"{sidp}/{nm}/{total}/{pad}"), o]


def wrap64k_sessions(g, sidp, op="parse_all", kinds=("app", "unk", "rr", "pfb", "sr"), ks=(1, 2, 3)):
    """padded packets whose variable part (payload + padding), or whose total, falls just above a multiple of
    65536 bytes: arithmetic on these lengths in 16 bits wraps to a value smaller than the padding count"""
    FIX = {"app": 12, "unk": 4, "rr": 32, "pfb": 12, "sr": 28}
    for nm in kinds:
        for k in ks:
            for (pad, d, rel) in ((4, 0, "var"), (8, 4, "var"), (252, 248, "var"), (252, 0, "var"), (12, 8, "tot"), (4, 0, "tot")):
                total = 65536 * k + d + (FIX[nm] if rel == "var" else 0)
                if total > 262144:
                    continue
                lf = total // 4 - 1
                if nm == "app":
                    b = hdr(2, True, 3, 204, lf) + [0, 1, 2, 3, 65, 66, 67, 68] + [5] * (total - 12)
                elif nm == "unk":
                    b = hdr(2, True, 0, 77, lf) + [6] * (total - 4)
                elif nm == "rr":
                    b = hdr(2, True, 1, 201, lf) + [9, 8, 7, 6] + [3] * 24 + [7] * (total - 32)
                elif nm == "sr":
                    b = hdr(2, True, 0, 200, lf) + [9, 8, 7, 6] + [4] * 20 + [7] * (total - 28)
                else:
                    b = hdr(2, True, 15, 206, lf) + [0, 0, 0, 1, 0, 0, 0, 2] + [1] * (total - 12)
                b[-pad:] = [0] * (pad - 1) + [pad]
                o = {"op": op, "b": b}
                if op == "parse":
                    o["kind"] = {"app": "app", "unk": "unknown", "rr": "rr", "pfb": "pfb", "sr": "sr"}[nm]
                yield [reset(f"{sidp}/{nm}/{k}/{pad}/{d}/{rel}"), o]


def alias_pair_sessions(g, sidp, op="parse_all", kinds=("rr", "sr", "app", "tfb", "unk"), ks=(1, 4)):
    """two strings with the same 4-byte header and the same last byte whose lengths differ by a multiple of 65536
    bytes, one of them well framed, parsed one right after the other in both orders: whatever is remembered about
    the one (keyed by header, a narrowed length, the last byte) must not decide the other"""
    BODY = {"rr": [9, 8, 7, 6] + [3] * 24, "sr": [9, 8, 7, 6] + [4] * 20, "app": [0, 1, 2, 3, 65, 66, 67, 68, 1, 2, 3, 4],
            "tfb": [0, 0, 0, 1, 0, 0, 0, 2, 0, 7, 0, 1], "unk": [5, 6, 7, 8]}
    HD = {"rr": (1, 201), "sr": (0, 200), "app": (2, 204), "tfb": (1, 205), "unk": (0, 77)}
    KIND = {"rr": "rr", "sr": "sr", "app": "app", "tfb": "tfb", "unk": "unknown"}
    for nm in kinds:
        cnt, pt = HD[nm]
        n = 4 + len(BODY[nm])
        for k in ks:
            big = n + 65536 * k
            if big > 262144 + n:
                continue
            for framed in ("short", "long"):
                lf = (n if framed == "short" else big) // 4 - 1
                if lf > 0xffff:
                    continue
                short = hdr(2, False, cnt, pt, lf) + BODY[nm]
                long_ = short + [7] * (big - n - 1) + [short[-1]]
                o = (lambda b: dict({"op": op, "b": b}, **({"kind": KIND[nm]} if op == "parse" else {})))
                first, second = (short, long_) if framed == "short" else (long_, short)
                yield [reset(f"{sidp}/{nm}/{k}/{framed}"), o(first), o(second), o(first), o(second)]


def nack_tiny_universe_sessions(g, n, sidp):
    """very many small NACK builders from a tiny universe of sequence numbers, one after the other in one process:
    whatever one of them leaves behind (a memo keyed by a weak fingerprint) meets a different set soon"""
    r = g.r
    for i in range(n):
        ops = [reset(f"{sidp}/{i}")]
        base = r.choice([0, 100, 65530])
        for _ in range(150):
            k = r.choice([2, 2, 3, 4])
            adds = [(base + v) % 65536 for v in r.sample(range(0, 45), k)]
            ops += calls_to_ops("tfb", [{"c": "new", "fci": {"f": "nack", "adds": adds}, "owned": False}]) + [
                {"op": "calc_size"}, {"op": "write_into", "rel": 0, "len": 64, "fill": 1}]
        yield ops


def nack_insert_sessions(g, n, sidp, per=90):
    """NACK sets clustered within a few (PID, BLP) windows, added in a random order (in-order runs, then a number in
    the middle, then a new maximum ...) with the FCI builder observed after EVERY add: an insertion regroups the
    words behind it, and whatever was counted before must be counted again.  Round trip after each builder."""
    r = g.r
    for i in range(n):
        ops = [reset(f"{sidp}/{i}")]
        for _ in range(per):
            base = r.choice([0, 100, 1000, 65500])
            k = r.choice([4, 5, 5, 6, 7])
            span = r.choice([24, 40, 40, 60])
            adds = [(base + v) % 65536 for v in r.sample(range(0, span), k)]
            mode = r.random()
            if mode < 0.4:
                adds.sort()
                j = r.randrange(1, k)
                adds.append(adds.pop(r.randrange(0, j)))       # ascending, then one from the front part last
                if r.random() < 0.5:
                    adds.append((adds[-2] + r.randrange(1, 20)) % 65536)   # ... and then a new maximum
            if mode > 0.7:
                # a late insertion that becomes the base of a word and pushes the tail of the next word out of it:
                # a, a+k | y, z  ->  a, a+k | x, y | z   (x between a+k and y, more than 16 behind a; z - x > 16 >= z - y)
                a = base
                x = a + r.randrange(17, 25)
                y = x + r.randrange(1, 9)
                z = y + r.randrange(max(1, 17 - (y - x)), 17)
                adds = [v % 65536 for v in (a, a + r.randrange(1, 17), y, z)]
                if r.random() < 0.5:
                    adds.append((z + r.randrange(1, 40)) % 65536)
                r.shuffle(adds)
                adds.append(x % 65536)
            fci = {"f": "nack", "adds": adds}
            if r.random() < 0.7:
                fci["probes"] = list(range(len(adds) + 1)) if r.random() < 0.5 else sorted(r.sample(range(len(adds) + 1), 2))
            ops += calls_to_ops("tfb", [{"c": "new", "fci": fci, "owned": False}]) + [
                {"op": "calc_size"}, {"op": "write_into", "rel": r.choice([0, 0, 4]), "len": 64, "fill": r.choice([0, 1])},
                {"op": "parse", "kind": "tfb", "src": "image"}]
        yield ops


def exact_max_sessions(g, sidp):
    """configurations that fit the 65536-word maximum exactly, with and without padding, and one word more"""
    for pad in (0, 4, 8):
        for extra in (0, 4):
            tot = 262144 + extra
            yield build_session(f"{sidp}/app/{pad}/{extra}", "app", [{"c": "new", "ssrc": [0, 1], "name": [65]},
                                {"c": "data", "v": [], "big": {"rep": 3, "n": tot - 12 - pad}}, {"c": "padding", "v": pad}], rt=False)
            k = (tot - 12 - pad) // 8
            if (tot - 12 - pad) % 8 == 0:
                adds = [[[i // 65536 + 1, i % 65536], i % 256] for i in range(k)]
                yield build_session(f"{sidp}/fir/{pad}/{extra}", "pfb", [{"c": "new", "fci": {"f": "fir", "adds": adds}, "owned": False}, {"c": "padding", "v": pad}], rt=False)
            k = (tot - 12 - pad) // 4
            adds = [[i % 8192, 1, i % 64] for i in range(k)]
            yield build_session(f"{sidp}/sli/{pad}/{extra}", "pfb", [{"c": "new", "fci": {"f": "sli", "adds": adds}, "owned": True}, {"c": "padding", "v": pad}], rt=False)
    yield from exact_max_raw_sessions(g, sidp)
    for k in (65535, 65536, 70000):          # more FIR entries than 16 bits count
        adds = [[[i // 65536 + 1, i % 65536], i % 256] for i in range(k)]
        yield build_session(f"{sidp}/firmany/{k}", "pfb", [{"c": "new", "fci": {"f": "fir", "adds": adds}, "owned": False}], rt=False)

def exact_max_raw_sessions(g, sidp, rt=False, over=True):
    """raw and third-party packets that fit the 65536-word maximum exactly, with and without padding, one word less
    and one word more"""
    for pad in (0, 4):
        for extra in ((-4, 0, 4) if over else (-4, 0)):
            tot = 262144 + extra
            yield build_session(f"{sidp}/unk/{pad}/{extra}", "unk", [{"c": "new", "type": 77, "data": [], "big": {"rep": 4, "n": tot - 4 - pad}},
                                {"c": "count", "v": 31}, {"c": "padding", "v": pad}], rt=(rt and extra <= 0))
            if extra <= 0:      # third-party writers have no limit of their own to be judged
                yield build_session(f"{sidp}/custom/{pad}/{extra}", "custom", [{"c": "new", "fam": 7, "ssrc": [1, 2]},
                                    {"c": "payload", "v": [6] * (tot - 8 - pad)}, {"c": "count", "v": 20}, {"c": "padding", "v": pad}], rt=rt)


def priv_edge_sweep(g, sidp, op="parse"):
    """PRIV items at the edges of the two length octets: item length 1, 2, 3, 254, 255 x prefix length 0, inside,
    length - 1 (the largest that fits), length (overruns by one) and 255, the item complete in the packet"""
    for L in (1, 2, 3, 128, 254, 255):
        for P in sorted({0, 1, L - 2, L - 1, L, 254, 255}):
            if P < 0:
                continue
            for tail in (0, 1):          # followed directly by the terminator, or by another item first
                body = [0, 0, 0, 9, 8, L, P] + [(0x41 + j % 26) for j in range(L - 1)] + ([1, 1, 0x7a] if tail else []) + [0]
                body += [0] * (-len(body) % 4)
                b = hdr(2, False, 1, 202, (4 + len(body)) // 4 - 1) + body
                o = {"op": op, "b": b}
                if op == "parse":
                    o["kind"] = "sdes"
                yield [reset(f"{sidp}/{L}/{P}/{tail}"), o]


def rpsi_mode_sweep(g, sidp, rt=False):
    """RPSI bit strings of 0..9 bytes x 0..8 ignored bits x the three ways of handing over the data"""
    for n_ in range(0, 10):
        for bits in (range(0, 9) if n_ else [0]):
            for mode in ("borrowed", "cow_owned", "owned"):
                data = [(0xa5 + 17 * j) % 256 for j in range(n_)]
                if n_:
                    data[-1] = 0xff
                fci = {"f": "rpsi", "calls": [{"c": "pt", "v": 96}, {"c": "data", "v": data, "bits": bits, "mode": mode}]}
                yield build_session(f"{sidp}/{n_}/{bits}/{mode}", "pfb", [{"c": "new", "fci": fci, "owned": mode == "owned"}], rt=rt)


def item_type_sweep(g, sidp):
    """every SDES item type with an empty, a one-byte and a three-byte value: parsed from bytes and built"""
    for t in range(1, 256):
        if t == 8:
            continue
        for v in ([], [0x41], [0x41, 0x42, 0x43]):
            body = [0, 0, 0, 9, t, len(v)] + v + [0]
            body += [0] * (-len(body) % 4)
            b = hdr(2, False, 1, 202, (4 + len(body)) // 4 - 1) + body
            yield [reset(f"{sidp}/parse/{t}/{len(v)}"), {"op": "parse", "kind": "sdes", "b": b}]
        ch = {"ssrc": g.u32(), "adds": [{"owned": False, "item": [{"c": "new", "type": t, "value": []}]},
                                        {"owned": True, "item": [{"c": "new", "type": t, "value": [0x61, 0x62]}]}]}
        yield build_session(f"{sidp}/build/{t}", "sdes", [{"c": "new"}, {"c": "add_chunk", "v": ch}], rt=True)


def concat_sessions(g, n, sidp):
    """two or three well-formed packets back to back handed to the single-packet parsers (must be TooLarge)"""
    r = g.r
    for i in range(n):
        k, calls = g.compound(n=r.randrange(2, 4))
        calls = [c for c in calls if c["c"] != "probe"]
        yield [reset(f"{sidp}/{i}")] + calls_to_ops(k, calls) + [{"op": "calc_size"}, {"op": "write_into", "rel": 0, "len": 64, "fill": 0},
                                                                {"op": "parse_all", "src": "image"}]

# ------------------------------------------------------------------ parsing C01 C08 C09 C12 C18
def hdr(v, p, cnt, pt, words):
    return [(v << 6) | (0x20 if p else 0) | cnt, pt, (words >> 8) & 0xff, words & 0xff]


def header_sweep(g, n, sidp):
    """bytes under systematically varied headers: version, P, count, type, length field vs actual length"""
    r = g.r
    for i in range(n):
        kind = r.choice(TYPED + ["other"])
        pt = PT.get(kind, r.choice([0, 77, 199, 207, 242, 255]))
        if r.random() < 0.1:
            pt = r.randrange(256)
        v = 2 if r.random() < 0.8 else r.choice([0, 1, 3])
        p = r.random() < 0.3
        cnt = r.choice([0, 1, 2, 31]) if r.random() < 0.6 else r.randrange(32)
        mn = MINLEN.get(kind, 4)
        base = mn + (24 * cnt if kind in ("sr", "rr") else 4 * cnt if kind == "bye" else 0)
        k = r.random()
        if k < 0.5:
            ln = base + 4 * r.randrange(0, 4)
        elif k < 0.7:
            ln = max(0, base + r.choice([-24, -8, -4, 4, 8]))
        elif k < 0.85:
            ln = r.randrange(0, 64)
        else:
            ln = 4 * r.randrange(0, 260)
        words = ln // 4 - 1 if ln >= 4 else 0
        k = r.random()
        if k < 0.15:
            words = max(0, words + r.choice([-1, 1, 2]))
        elif k < 0.2:
            words = r.choice([0, 0xffff, r.randrange(65536)])
        elif k < 0.3:
            # a length field that aliases the right one if high bits are dropped or only part of it is read
            words = (words + r.choice([0x100, 0x4000, 0x8000, 0xc000, 0xff00])) & 0xffff
        body = g.bytes_(max(0, ln - 4))
        if len(body) >= 4 and r.random() < 0.04:
            body[0:4] = r.choice([[0x21, 0x12, 0xa4, 0x42], [0x52, 0x45, 0x4d, 0x42], [0x2a, 0x3b, 0x4c, 0x5d]])   # well-known 32-bit identifiers
            v = r.choice([0, 0, 2])
        b = (hdr(v, p, cnt, pt, words) + body)[:ln] if ln >= 4 else hdr(v, p, cnt, pt, words)[:ln]
        if p and b:
            b[-1] = r.choice([0, 1, 4, 8, 12, 255, len(b) - mn if 0 <= len(b) - mn < 256 else 4, r.randrange(256)])
        yield [reset(f"{sidp}/{i}"), {"op": "parse_all", "b": b}]


def count_body_sweep(g, sidp):
    """well-framed strings (length field = real length) whose body is too short, exact or too long for what the
    count field announces: every count of interest against every nearby length, for SR, RR and BYE"""
    r = g.r
    for kind, unit in (("sr", 24), ("rr", 24), ("bye", 4)):
        for cnt in (0, 1, 2, 3, 11, 31):
            exact = MINLEN[kind] + unit * cnt
            for delta in sorted({-unit * cnt, -unit, -8, -4, 0, 4, 8, unit, 2 * unit}):
                ln = exact + delta
                if ln < 4:
                    continue
                for p in (False, True):
                    b = hdr(2, p, cnt, PT[kind], ln // 4 - 1) + [r.randrange(256) for _ in range(ln - 4)]
                    if p:
                        b[-1] = r.choice([4, 4, 8, 0, 255])
                    yield [reset(f"{sidp}/{kind}/{cnt}/{delta}/{int(p)}"), {"op": "parse_all", "b": b}]


def mutated_images(g, n, sidp, op="parse_all", kinds=None):
    r = g.r
    for i in range(n):
        if r.random() < 0.15:
            k, calls = g.compound()
        else:
            k, calls = g.builder(kind=(r.choice(kinds) if kinds else None), small=(r.random() < 0.7))
        ops = [reset(f"{sidp}/{i}")] + calls_to_ops(k, calls) + [{"op": "calc_size"}, {"op": "write_into", "rel": 0, "len": 64, "fill": 0}]
        for _ in range(r.randrange(1, 5)):
            o = {"op": op, "src": "image"}
            m = r.random()
            if m < 0.5:
                o["medits"] = [[r.randrange(1 << 20), r.choice([0, 1, 2, 3, 4, 5, 8, 255, r.randrange(256)])] for _ in range(r.randrange(1, 4))]
            elif m < 0.7:
                o["mtrunc"] = r.randrange(1 << 20)
            elif m < 0.85:
                o["append"] = g.bytes_(r.randrange(1, 9))
            else:
                o["medits"] = [[r.choice([0, 1, 2, 3]), r.randrange(256)]]
            if op == "parse" :
                o["kind"] = parse_kind_of(k) if k != "compound" else "packet"
                if o["kind"] == "custom":
                    o["fam"] = calls[0]["fam"]
            ops.append(o)
        yield ops


def tiles_of(b):
    """walk the length chain (hint for the executor; validated by the spec)"""
    out, off = [], 0
    while off < len(b):
        if len(b) < off + 4:
            return None
        n = 4 * (((b[off + 2] << 8) | b[off + 3]) + 1)
        if off + n > len(b):
            return None
        out.append([off, n])
        off += n
    return out


def tiles_of_partial(b):
    """the chain as far as it goes, and whether it ends exactly at the end (a hint validated by the spec)"""
    out, off = [], 0
    while off < len(b):
        if len(b) < off + 4:
            return out, False
        n = 4 * (((b[off + 2] << 8) | b[off + 3]) + 1)
        if off + n > len(b):
            return out, False
        out.append([off, n])
        off += n
    return out, True


def compound_bytes_sessions(g, n, sidp):
    """literal datagrams assembled from small tiles, with edits; next() called past the end"""
    r = g.r
    T = [
        [0x80, 203, 0, 0],                                   # BYE, no sources
        [0x81, 203, 0, 1, 1, 2, 3, 4],                       # BYE 1 source
        [0x80, 201, 0, 1, 9, 9, 9, 9],                       # RR no blocks
        [0x81, 201, 0, 1, 9, 9, 9, 9],                       # RR count 1 without block -> typed parser fails
        [0x40, 201, 0, 1, 9, 9, 9, 9],                       # version 1
        [0x80, 77, 0, 1, 5, 6, 7, 8],                        # unknown type
        [0x81, 202, 0, 2, 0, 0, 0, 1, 1, 9, 65, 66],         # SDES with overrunning item
        [0x80, 204, 0, 1, 1, 2, 3, 4],                       # APP shorter than its minimum
        [0xa0, 203, 0, 1, 0, 0, 0, 0],                       # BYE with padding bit and zero count
        [0x80, 200, 0, 0],                                   # SR header only
        [0x81, 202, 0, 2, 0, 0, 0, 1, 1, 1, 65, 0],          # SDES ok
        [0x81, 205, 0, 3, 0, 0, 0, 1, 0, 0, 0, 2, 0, 5, 0, 1],  # NACK
        [0x81, 202, 0, 2, 0, 0, 0, 1, 8, 1, 5, 0],           # SDES, PRIV prefix overruns the item
        [0x81, 202, 0, 2, 0, 0, 0, 1, 8, 0, 0, 0],           # SDES, PRIV item without a prefix length
        [0xa0, 203, 0, 1, 0, 0, 0, 4],                       # BYE: header and padding only
        [0x80, 204, 0, 2, 0, 0, 0, 1, 65, 66, 67, 68],       # APP
    ]
    for i in range(n):
        k = r.randrange(0, 5) if r.random() < 0.93 else r.choice([16, 31, 32, 33, 40, 64, 70])   # longer chains too
        b = []
        good = [T[0], T[1], T[2], T[5], T[10], T[11], T[14], T[15]]
        for _ in range(k):
            b += r.choice(T if k < 8 else good)
        m = r.random()
        if m < 0.15:
            b += g.bytes_(r.randrange(1, 4))
        elif m < 0.25:
            b += [0x80, 203, 0, r.randrange(1, 4)]
        elif m < 0.4 and b:
            b[r.randrange(len(b))] = r.randrange(256)
        ops = [reset(f"{sidp}/{i}"), {"op": "cparse", "b": b}]
        tiles = tiles_of(b) if b else None
        if tiles is not None and b:
            extra = r.randrange(1, 4)
            for j in range(len(tiles) + extra):
                o = {"op": "cnext"}
                if j < len(tiles):
                    o["tile"] = tiles[j]
                ops.append(o)
        yield ops


def compound_image_sessions(g, n, sidp, mutate=True):
    r = g.r
    for i in range(n):
        k, calls = g.compound(n=(r.randrange(1, 6) if r.random() < 0.9 else r.randrange(6, 21)))
        ops = [reset(f"{sidp}/{i}")] + calls_to_ops(k, calls) + [{"op": "calc_size"}, {"op": "write_into", "rel": 0, "len": 64, "fill": 0}]
        o = {"op": "cparse", "src": "image"}
        if mutate and r.random() < 0.5:
            m = r.random()
            if m < 0.5:
                o["medits"] = [[r.randrange(1 << 20), r.randrange(256)] for _ in range(r.randrange(1, 3))]
            elif m < 0.8:
                o["mtrunc"] = r.randrange(1 << 20)
            else:
                o["append"] = g.bytes_(r.randrange(1, 6))
        ops.append(o)
        ops += [{"op": "cnext"} for _ in range(r.randrange(1, 8) + len(calls))]
        yield ops


def noise(g, n, sidp):
    r = g.r
    for i in range(n):
        ln = r.randrange(0, 40) if r.random() < 0.7 else r.randrange(0, 600)
        b = g.bytes_(ln)
        if b and r.random() < 0.7:
            b[0] = 0x80 | (b[0] & 0x3f)
            if len(b) > 1 and r.random() < 0.7:
                b[1] = r.choice([200, 201, 202, 203, 204, 205, 206])
            if len(b) > 3 and r.random() < 0.6:
                w = max(0, ln // 4 - 1)
                b[2], b[3] = (w >> 8) & 0xff, w & 0xff
        ops = [reset(f"{sidp}/{i}"), {"op": "parse_all", "b": b}, {"op": "cparse", "b": b}] + [{"op": "cnext"}] * 3
        if r.random() < 0.3:
            ops.append({"op": "parse", "kind": "rb", "b": g.bytes_(r.choice([0, 23, 24, 25, r.randrange(0, 50)]))})
        for f in ("nack", "fir", "sli", "rpsi", "pli"):
            if r.random() < 0.3:
                ops.append({"op": "parse", "kind": f, "b": g.bytes_(r.randrange(0, 20))})
        yield ops


def fci_sessions(g, n, sidp, op="parse"):
    """feedback packets with arbitrary FCI bodies, all formats, both kinds (C15), and direct FCI parsers"""
    r = g.r
    for i in range(n):
        kind = r.choice(["tfb", "pfb"])
        fmt = r.choice([1, 2, 3, 4]) if r.random() < 0.8 else r.randrange(32)
        nw = r.randrange(0, 6) if r.random() < 0.8 else r.randrange(0, 501)
        fci = g.bytes_(4 * nw)
        if fmt == 3 and kind == "pfb" and fci:
            fci[0] = r.choice([0, 8, 12, 16, 8 * (len(fci) - 2), 8 * (len(fci) - 2) + 1, 255, r.randrange(256)]) % 256
        if r.random() < 0.08:
            # application layer feedback (FMT 15) and other bodies starting with a well-known identifier
            fmt = r.choice([15, 15, fmt])
            ident = r.choice([[0x52, 0x45, 0x4d, 0x42], [0x52, 0x45, 0x4d, 0x42], [0x41, 0x46, 0x42, 0x20], [0x54, 0x4d, 0x4d, 0x42]])
            fci = ident + g.bytes_(4 * r.choice([0, 0, 1, 2, 3]))
            if len(fci) > 4:
                fci[4] = r.choice([0, 1, 2, 3, 255, fci[4]])      # a count-like byte right after the identifier
        pad = 0 if r.random() < 0.7 else r.choice([4, 8, 12])
        total = 12 + len(fci) + pad
        b = hdr(2, pad > 0, fmt, PT[kind], total // 4 - 1) + g.u32bytes() + g.u32bytes() + fci + ([0] * (pad - 1) + [pad] if pad else [])
        if pad == 0 and fci and r.random() < 0.25:
            # a padding count that is not a multiple of 4: the last octets of the last word are to be ignored
            b[0] |= 0x20
            b[-1] = r.choice([1, 2, 3, 5, 6, 7, len(fci) - 1, len(fci)]) % 256 or 1
        ops = [reset(f"{sidp}/{i}"), ({"op": "parse", "kind": kind, "b": b} if op == "parse" else {"op": "parse_all", "b": b})]
        if r.random() < 0.5:
            f = r.choice(["nack", "fir", "sli", "rpsi", "pli"])
            region = fci if r.random() < 0.6 else g.bytes_(r.randrange(0, 30))
            ops.append({"op": "parse", "kind": f, "b": region})
        yield ops


def irregular_pad_fci_sweep(g, sidp, op="parse"):
    """every FCI type under every padding count 1 .. length of the FCI area (multiples of 4 or not), few words"""
    for kind, fmt in (("tfb", 1), ("pfb", 1), ("pfb", 2), ("pfb", 3), ("pfb", 4)):
        for nw in (1, 2, 3):
            for c in range(1, 4 * nw + 1):
                fci = [(37 * j + 11) % 251 + 1 for j in range(4 * nw)]
                if fmt == 3:
                    fci[0] = 8 * max(0, 4 * nw - c - 2 - 1) % 256 if c % 2 else 0
                b = hdr(2, True, fmt, PT[kind], (12 + 4 * nw) // 4 - 1) + [0, 0, 0, 1, 0, 0, 0, 2] + fci
                b[-1] = c
                o = {"op": op, "b": b}
                if op == "parse":
                    o["kind"] = kind
                yield [reset(f"{sidp}/{kind}/{fmt}/{nw}/{c}"), o]


def nack_many(g, sidp):
    """one NACK whose words describe 65536 and more sequence numbers in total"""
    for nw in (3855, 3856, 4100):
        b = []
        for i in range(nw):
            pid = (17 * i) % 65536
            b += [pid >> 8, pid & 0xff, 0xff, 0xff]
        yield [reset(f"{sidp}/{nw}"), {"op": "parse", "kind": "nack", "b": b}]


def afb_sessions(g, sidp, op="parse"):
    """application layer feedback (PSFB FMT 15) and other formats whose body starts with a well-known 4-byte
    identifier, followed by every small number of words and a count-like byte of every size"""
    r = g.r
    for ident in ([0x52, 0x45, 0x4d, 0x42], [0x41, 0x46, 0x42, 0x20]):
        for fmt in (15, 1, 3, 4):
            for nw in range(0, 7):
                for cb in (0, 1, 2, 5, 255):
                    fci = ident + ([cb] + g.bytes_(4 * nw - 1) if nw else [])
                    for pad in (0, 4):
                        total = 12 + len(fci) + pad
                        b = hdr(2, pad > 0, fmt, 206, total // 4 - 1) + g.u32bytes() + g.u32bytes() + fci + ([0] * (pad - 1) + [pad] if pad else [])
                        o = {"op": "parse", "kind": "pfb", "b": b} if op == "parse" else {"op": "parse_all", "b": b}
                        yield [reset(f"{sidp}/{fmt}/{nw}/{cb}/{pad}/{ident[0]}"), o]


def nack_iter_sessions(g, n, sidp):
    r = g.r
    for i in range(n):
        nw = r.randrange(0, 4)
        b = []
        for _ in range(nw):
            pid = r.choice([0, 1, 0x7fff, 0xffee, 0xffef, 0xfff0, 0xffff, r.randrange(65536)])
            blp = r.choice([0, 1, 0x8000, 0xffff, 0x5555, 0xaaaa, r.randrange(65536)])
            b += [pid >> 8, pid & 0xff, blp >> 8, blp & 0xff]
        if r.random() < 0.2:
            b += g.bytes_(r.randrange(1, 4))
        ops = [reset(f"{sidp}/{i}"), {"op": "nack_open", "b": b}, {"op": "nack_iter", "it": 0}, {"op": "nack_iter", "it": 1}]
        for _ in range(r.randrange(1, 17 * nw + 6)):
            ops.append({"op": "nack_next", "it": r.choice([0, 0, 1])})
        yield ops


def big_inputs(g, sidp, count):
    """inputs above 64 KiB: thousands of tiles, and single packets with the maximal length field"""
    r = g.r
    for i in range(count):
        nt = [16500, 3000, 20000][i % 3]
        T = [[0x80, 203, 0, 0], [0x81, 203, 0, 1, 1, 2, 3, 4], [0x80, 77, 0, 0]]
        b = []
        for _ in range(nt):
            b += r.choice(T)
        k = r.random()
        if i % 2 == 1:
            b += [[0x80, 203, 0, 9], [1, 2], [0x80, 203, 0, 0, 0]][i // 2 % 3]     # the chain breaks at the very end
        tl = tiles_of_partial(b)
        yield [reset(f"{sidp}/tiles/{i}"), {"op": "cparse", "b": b, "hint": {"ok": tl[1], "tiles": tl[0]}}] + [{"op": "cnext"}] * 5
    if count >= 2:
        for nt in (65536, 65540):
            b = [0x80, 203, 0, 0] * nt
            tl = tiles_of_partial(b)
            yield [reset(f"{sidp}/manytiles/{nt}"), {"op": "cparse", "b": b, "hint": {"ok": tl[1], "tiles": tl[0]}}] + [{"op": "cnext"}] * 6
    # few large tiles adding up to more than 64 KiB (no hint needed)
    b = []
    for j in range(5):
        n = 16384
        b += hdr(2, False, j, 204, n // 4 - 1) + [j] * (n - 4)
    yield [reset(f"{sidp}/largetiles"), {"op": "cparse", "b": b}] + [{"op": "cnext"}] * 7
    b = hdr(2, False, 0, 204, 0xffff) + [0] * (262144 - 4)
    yield [reset(f"{sidp}/maxlen"), {"op": "parse", "kind": "app", "b": b}, {"op": "parse", "kind": "packet", "b": b[:70000]}]
    # a short packet followed by exactly 65536 more words: the real length aliases the header length modulo 2^16 words
    for kind, first in (("app", [0x80, 204, 0, 2, 1, 2, 3, 4, 65, 66, 67, 68]), ("bye", [0x81, 203, 0, 1, 1, 2, 3, 4]),
                        ("rr", [0x80, 201, 0, 1, 1, 2, 3, 4])):
        long = first + [0] * 262144
        tl = tiles_of_partial(long)
        yield [reset(f"{sidp}/alias/{kind}"), {"op": "parse", "kind": kind, "b": long}, {"op": "parse", "kind": "packet", "b": long},
               {"op": "parse", "kind": "unknown", "b": long}, {"op": "cparse", "b": long, "hint": {"ok": tl[1], "tiles": tl[0]}}, {"op": "cnext"}]
    # a tile with the maximal length field (0xffff) inside a compound, first and non-first
    yield [reset(f"{sidp}/maxtile"), {"op": "cparse", "b": b}, {"op": "cnext", "tile": [0, 262144]}, {"op": "cnext"},
           {"op": "cparse", "b": [0x80, 203, 0, 0] + b + [0x81, 203, 0, 1, 0, 0, 0, 7]},
           {"op": "cnext", "tile": [0, 4]}, {"op": "cnext", "tile": [4, 262144]}, {"op": "cnext", "tile": [262148, 8]}, {"op": "cnext"}]


def c01(g, tier):
    q = tier == "quick"
    yield from mutated_images(g, 1200 if q else 40000, "C01/mut")
    yield from header_sweep(g, 1500 if q else 40000, "C01/hdr")
    yield from noise(g, 500 if q else 20000, "C01/noise")
    yield from compound_bytes_sessions(g, 400 if q else 10000, "C01/cb")
    yield from compound_image_sessions(g, 200 if q else 5000, "C01/ci")
    yield from fci_sessions(g, 600 if q else 20000, "C01/fci")
    yield from nack_iter_sessions(g, 100 if q else 3000, "C01/nit")
    yield from big_inputs(g, "C01/big", 2 if q else 4)
    yield from midsize_sessions(g, "C01/mid", ["sdes", "nack", "fir"])
    yield from nack_many(g, "C01/many")
    yield from irregular_pad_fci_sweep(g, "C01/irr", op="parse_all")
    yield from priv_edge_sweep(g, "C01/privedge", op="parse_all")
    yield from item_type_sweep(g, "C01/types")
    yield from concat_sessions(g, 100 if q else 3000, "C01/concat")
    yield from many_chunks_sessions(g, "C01/chunks")
    yield from giant_chunk_sessions(g, "C01/giant")
    yield from reparse_sessions(g, 150 if q else 4000, "C01/reparse")
    yield from nack_pair_sessions(g, 100 if q else 3000, "C01/npair")
    yield from count_body_sweep(g, "C01/cnt")
    yield from padding_count_sweep(g, "C01/padcnt")
    yield from bye_body_sweep(g, "C01/bye")
    yield from huge_direct_sessions(g, "C01/huge")
    yield from max_packet_sessions(g, "C01/max", kinds=("app", "pfb"))
    yield from alias_pair_sessions(g, "C01/alias", kinds=("rr", "app"), ks=(1,))
    yield from wrap64k_sessions(g, "C01/wrap", kinds=("app", "pfb", "sr"), ks=((1,) if q else (1, 2, 3)))
    yield from afb_sessions(g, "C01/afb", op="parse_all")
    yield from big_sli_sessions(g, "C01/bigsli")


def c08(g, tier):
    q = tier == "quick"
    yield from header_sweep(g, 4000 if q else 100000, "C08/hdr")
    yield from mutated_images(g, 800 if q else 20000, "C08/mut")
    yield from concat_sessions(g, 300 if q else 8000, "C08/concat")
    yield from reparse_sessions(g, 200 if q else 5000, "C08/reparse")
    yield from count_body_sweep(g, "C08/cnt")
    yield from padding_count_sweep(g, "C08/padcnt")
    yield from bye_body_sweep(g, "C08/bye")
    yield from big_inputs(g, "C08/big", 0)
    yield from max_packet_sessions(g, "C08/max")
    yield from alias_pair_sessions(g, "C08/alias", ks=((1,) if q else (1, 4)))
    yield from wrap64k_sessions(g, "C08/wrap", kinds=("app", "rr"), ks=((1,) if q else (1, 2, 3)))


def fixed_layout_bodies(g, n, sidp):
    """valid headers over uniformly random bodies so that every field varies independently (C09)"""
    r = g.r
    for i in range(n):
        kind = r.choice(["sr", "rr", "app", "bye", "tfb", "pfb", "unknown", "rb"])
        if kind == "rb":
            yield [reset(f"{sidp}/{i}"), {"op": "parse", "kind": "rb", "b": [r.randrange(256) for _ in range(24)]}]
            continue
        cnt = r.randrange(0, 4) if r.random() < 0.8 else r.randrange(32)
        pad = 0 if r.random() < 0.6 else r.choice([4, 8, 12])
        if kind in ("sr", "rr"):
            body = MINLEN[kind] - 4 + 24 * cnt
            if r.random() < 0.35:      # RFC 3550 6.4.1 / 6.4.2: profile-specific extensions follow the report blocks
                body += 4 * r.choice([1, 2, 5, 6, 7, 12, 13, 30, 69, 70, 243, 244, 300])
        elif kind == "bye":
            body = 4 * cnt + (0 if r.random() < 0.4 else 4 * r.randrange(1, 5))
        elif kind == "unknown":
            body = 4 * r.randrange(0, 8)
        else:
            body = 8 + 4 * r.randrange(0, 6)
        pt = PT.get(kind, r.choice([0, 77, 199, 207, 255]))
        total = 4 + body + pad
        bb = [r.randrange(256) for _ in range(body)]
        if kind == "bye" and body > 4 * cnt:
            room = body - 4 * cnt - 1
            rl = r.randrange(0, room + 1)
            bb[4 * cnt] = rl if r.random() < 0.8 else r.randrange(256)
        b = hdr(2, pad > 0, cnt, pt, total // 4 - 1) + bb + ([0] * (pad - 1) + [pad] if pad else [])
        yield [reset(f"{sidp}/{i}"), {"op": "parse", "kind": kind, "b": b}]


def c09(g, tier):
    q = tier == "quick"
    yield from count_body_sweep(g, "C09/cnt")
    yield from padding_count_sweep(g, "C09/padcnt")
    yield from bye_body_sweep(g, "C09/bye")
    yield from max_packet_sessions(g, "C09/max", op="parse", kinds=("app", "rr"))
    yield from wrap64k_sessions(g, "C09/wrap", op="parse", ks=((1, 3) if q else (1, 2, 3)))
    yield from fixed_layout_bodies(g, 4000 if q else 100000, "C09/body")
    for i in range(800 if q else 20000):
        k, calls = g.builder(g.r.choice(["sr", "rr", "app", "bye", "tfb", "pfb", "unk"]), small=g.r.random() < 0.5)
        yield build_session(f"C09/img/{i}", k, calls, rt=True)
    yield from mutated_images(g, 500 if q else 10000, "C09/mut", op="parse", kinds=["sr", "rr", "app", "bye", "tfb", "pfb"])


def c10(g, tier):
    q = tier == "quick"
    r = g.r
    # builder images (must), mutated (all three classes), small-value bodies
    for i in range(800 if q else 20000):
        k, calls = g.sdes(small=r.random() < 0.8)
        ops = build_session(f"C10/img/{i}", k, calls, rt=True)
        for _ in range(3):
            ops.append({"op": "parse", "kind": "sdes", "src": "image",
                        "medits": [[r.randrange(1 << 20), r.choice([0, 0, 1, 2, 3, 4, 8, 255, r.randrange(256)])] for _ in range(r.randrange(1, 3))]})
        yield ops
    yield from midsize_sessions(g, "C10/mid", ["sdes"])
    yield from item_type_sweep(g, "C10/types")
    yield from priv_edge_sweep(g, "C10/privedge")
    yield from many_chunks_sessions(g, "C10/chunks")
    yield from giant_chunk_sessions(g, "C10/giant")
    for i in range(3000 if q else 100000):
        nw = r.randrange(0, 7)
        body = [r.choice([0, 0, 0, 1, 2, 3, 8, 65, r.randrange(256)]) for _ in range(4 * nw)]
        pad = 0 if r.random() < 0.8 else r.choice([4, 8])
        cnt = r.randrange(0, 4)
        total = 4 + len(body) + pad
        b = hdr(2, pad > 0, cnt, 202, total // 4 - 1) + body + ([0] * (pad - 1) + [pad] if pad else [])
        yield [reset(f"C10/rand/{i}"), {"op": "parse", "kind": "sdes", "b": b}]


def c11(g, tier):
    q = tier == "quick"
    yield from compound_bytes_sessions(g, 3000 if q else 80000, "C11/cb")
    yield from compound_image_sessions(g, 600 if q else 15000, "C11/ci")
    yield from big_inputs(g, "C11/big", 2 if q else 4)
    yield from reparse_sessions(g, 300 if q else 8000, "C11/reparse")


def c12(g, tier):
    q = tier == "quick"
    yield from header_sweep(g, 2500 if q else 60000, "C12/hdr")
    yield from mutated_images(g, 1000 if q else 30000, "C12/mut")
    for i in range(500 if q else 10000):
        k, calls = g.builder(small=True)
        yield build_session(f"C12/img/{i}", k, calls, rt=False, extra=[{"op": "parse_all", "src": "image"}])
    yield from concat_sessions(g, 300 if q else 8000, "C12/concat")
    yield from fci_sessions(g, 600 if q else 15000, "C12/fci", op="parse_all")
    yield from afb_sessions(g, "C12/afb", op="parse_all")
    yield from reparse_sessions(g, 150 if q else 4000, "C12/reparse")
    yield from count_body_sweep(g, "C12/cnt")
    yield from max_packet_sessions(g, "C12/max")
    yield from alias_pair_sessions(g, "C12/alias", kinds=("rr", "sr", "unk"), ks=(1,))
    yield from wrap64k_sessions(g, "C12/wrap", kinds=("app", "unk"), ks=((2,) if q else (1, 2, 3)))


def c13(g, tier):
    q = tier == "quick"
    pads = [4, 8, 12, 252] if q else list(range(4, 256, 4))
    kinds = ["sr", "rr", "sdes", "bye", "app", "tfb", "pfb"]
    for i in range(900 if q else 6000):
        k, calls = g.builder(g.r.choice(kinds), small=g.r.random() < 0.7)
        calls = [c for c in calls if c["c"] != "padding"]
        ps = pads if q else g.r.sample(pads, 8)
        yield build_session(f"C13/{i}", k, calls, rt=False,
                            extra=[{"op": "parse_pad", "kind": k, "src": "image", "n": n} for n in ps]
                            + [{"op": "parse_pad", "kind": "packet", "src": "image", "n": g.r.choice(pads)}])   # through the generic parser
    yield from c13_literals(g, tier)


def c13_literals(g, tier):
    """well-formed unpadded packets that no builder of the crate emits, padded by the C13 pair operation"""
    r = g.r
    pads = [4, 8, 12, 252]
    i = 0
    for kind in ("sr", "rr"):
        for cnt in (0, 1, 2):
            for ext in (0, 4, 8, 24, 28, 52):         # profile-specific extension words after the report blocks
                body = MINLEN[kind] - 4 + 24 * cnt + ext
                b = hdr(2, False, cnt, PT[kind], (4 + body) // 4 - 1) + [r.randrange(256) for _ in range(body)]
                yield [reset(f"C13/lit/{kind}/{cnt}/{ext}")] + [{"op": "parse_pad", "kind": kind, "b": b, "n": n} for n in pads]
    # BYE: a reason that is present but empty, reasons of every short length, no reason
    for cnt in (0, 1, 2):
        for reason in ([], [0, 0, 0, 0], [1, 65, 0, 0], [2, 65, 66, 0], [3, 65, 66, 67], [4, 65, 66, 67, 68, 0, 0, 0], [0, 0, 0, 0, 0, 0, 0, 0]):
            b = hdr(2, False, cnt, 203, (4 + 4 * cnt + len(reason)) // 4 - 1) + [r.randrange(256) for _ in range(4 * cnt)] + reason
            yield [reset(f"C13/lit/bye/{cnt}/{len(reason)}/{i}")] + [{"op": "parse_pad", "kind": "bye", "b": b, "n": n} for n in pads]
            i += 1
    # APP with and without data; feedback with FCI bodies of every small size
    for dl in (0, 4, 8):
        b = hdr(2, False, 3, 204, (12 + dl) // 4 - 1) + [1, 2, 3, 4, 65, 66, 67, 0] + [r.randrange(256) for _ in range(dl)]
        yield [reset(f"C13/lit/app/{dl}")] + [{"op": "parse_pad", "kind": "app", "b": b, "n": n} for n in pads]
    # padded totals that reach or cross a multiple of 64 KiB
    for total, n in ((65532, 4), (65500, 100), (65284, 252), (131064, 252), (262140, 4)):
        b = hdr(2, False, 5, 204, total // 4 - 1) + [1, 2, 3, 4, 65, 66, 67, 68] + [7] * (total - 12)
        yield [reset(f"C13/lit/app64k/{total}"), {"op": "parse_pad", "kind": "app", "b": b, "n": n}]
    # long feedback packets (more than 1024 bytes) with padding
    for sess in midsize_sessions(g, "C13/mid", ["nack", "fir"]):
        kind = sess[1]["kind"]
        yield [o for o in sess if o["op"] != "parse"] + [{"op": "parse_pad", "kind": kind, "src": "image", "n": n} for n in (4, 8, 252)]


def c14(g, tier):
    q = tier == "quick"
    r = g.r
    yield from c14_big(g)
    yield from impostor_sessions(g, 150 if q else 4000, "C14/impostor")
    # (a builder history of 65536 members is beyond what TLC folds in reasonable time; the 65536-tile datagrams of
    #  C11 exercise the parser side of such compounds)
    for i in range(1200 if q else 30000):
        bad = None
        x = r.random()
        if x < 0.15:
            bad = "member"
        elif x < 0.35:
            bad = "padding"
        k, calls = g.compound(bad=bad)
        ops = observe_midway(g, [reset(f"C14/{i}")] + calls_to_ops(k, calls), 0.4) + [{"op": "calc_size"}, {"op": "get_padding"}]
        if r.random() < 0.4:
            ops.append(unchecked_op(g, "compound", calls))
        ops.append({"op": "write_into", "rel": r.choice([0, 0, 5]), "len": 64, "fill": 0})
        ops.append({"op": "cparse", "src": "image"})
        ops += [{"op": "cnext"} for _ in range(len(calls) + 2 + 3 * sum(1 for c in calls[1:] if c.get("v", {}).get("kind") == "compound"))]
        yield ops


def impostor_sessions(g, n, sidp):
    """compounds with a raw member that carries a built-in packet type but is not a packet of that type (the typed
    parser refuses it), in every position: next() yields for it what the generic parser returns on it alone"""
    r = g.r
    IMP = [(201, [0, 0, 0, 1], 1), (200, [0, 0, 0, 1], 0), (200, [9] * 24, 2), (204, [1, 2, 3, 4], 0), (205, [0, 0, 0, 1], 1),
           (203, [], 2), (202, [0, 0, 0, 1, 8, 1, 5, 0], 1), (202, [0, 0, 0, 1, 1, 9, 65, 66], 1), (206, [], 4)]
    for i in range(n):
        k = r.randrange(2, 5)
        at = r.randrange(k)
        members = []
        for j in range(k):
            if j == at:
                ty, data, cnt = r.choice(IMP)
                calls = [{"c": "new", "type": ty, "data": data, "via": "builder"}, {"c": "count", "v": cnt}]
                members.append({"kind": "unk", "calls": calls, "pb": r.random() < 0.5})
            else:
                kk, calls = g.builder(r.choice(["rr", "bye", "app", "sdes", "sr"]), small=True)
                members.append({"kind": kk, "calls": [c for c in calls if c["c"] != "padding"], "pb": False})
        calls = [{"c": "new"}] + [{"c": "add_packet", "v": m} for m in members]
        yield [reset(f"{sidp}/{i}")] + calls_to_ops("compound", calls) + [
            {"op": "calc_size"}, {"op": "write_into", "rel": 0, "len": 64, "fill": 0}, {"op": "cparse", "src": "image"}] + [{"op": "cnext"}] * (k + 1)


def c14_big(g):
    """compounds whose total size passes 64 KiB / 256 KiB (each member below the per-packet limit)"""
    rr = {"kind": "rr", "calls": [{"c": "new", "ssrc": g.u32()}], "pb": False}
    u1 = {"kind": "unk", "calls": [{"c": "new", "type": 78, "data": [], "big": {"rep": 5, "n": 150000}, "via": "new"}], "pb": False}
    u2 = {"kind": "app", "calls": [{"c": "new", "ssrc": g.u32(), "name": [66]}, {"c": "data", "v": [], "big": {"rep": 6, "n": 150000}}, {"c": "padding", "v": 8}], "pb": True}
    calls = [{"c": "new"}, {"c": "add_packet", "v": rr}, {"c": "add_packet", "v": u1}, {"c": "add_packet", "v": u2}]
    yield [reset("C14/big/300k")] + calls_to_ops("compound", calls) + [
        {"op": "calc_size"}, {"op": "write_into", "rel": 0, "len": 64, "fill": 0}, {"op": "cparse", "src": "image"}] + [{"op": "cnext"}] * 4
    for nbytes in (65500, 65508, 65536, 131072, 262100):
        unk = {"kind": "unk", "calls": [{"c": "new", "type": 77, "data": [], "big": {"rep": 9, "n": nbytes}, "via": "builder"}], "pb": True}
        app = {"kind": "app", "calls": [{"c": "new", "ssrc": g.u32(), "name": [65]}, {"c": "padding", "v": 4}], "pb": False}
        calls = [{"c": "new"}, {"c": "add_packet", "v": rr}, {"c": "add_packet", "v": unk}, {"c": "add_packet", "v": app}]
        yield [reset(f"C14/big/{nbytes}")] + calls_to_ops("compound", calls) + [
            {"op": "calc_size"}, {"op": "write_into", "rel": 0, "len": 64, "fill": 0}, {"op": "cparse", "src": "image"}] + [{"op": "cnext"}] * 4


def c15(g, tier):
    q = tier == "quick"
    yield from fci_sessions(g, 3000 if q else 80000, "C15/fci")
    yield from nack_iter_sessions(g, 400 if q else 10000, "C15/nit")
    yield from midsize_sessions(g, "C15/mid", ["nack", "fir"])
    yield from nack_many(g, "C15/many")
    yield from irregular_pad_fci_sweep(g, "C15/irr")
    yield from big_sli_sessions(g, "C15/bigsli")
    yield from nack_pair_sessions(g, 300 if q else 8000, "C15/npair")
    yield from huge_direct_sessions(g, "C15/huge")
    yield from afb_sessions(g, "C15/afb")
    # single-word sweeps
    r = g.r
    pids = [0, 1, 0x7fff, 0xffee, 0xffef, 0xfff0, 0xffff]
    blps = [0, 1, 0x8000, 0xffff, 0x5555, 0xaaaa]
    words = []
    if q:
        masks = [m for m in range(65536) if bin(m).count("1") <= 2 or bin(m).count("1") >= 14]
        words += [(p, m) for p in pids for m in r.sample(masks, 200)]
        words += [(p, m) for m in blps for p in r.sample(range(65536), 300)]
    else:
        words += [(p, m) for p in pids for m in range(65536)]
        words += [(p, m) for m in blps for p in range(65536)]
    for i in range(0, len(words), 40):
        ops = [reset(f"C15/word/{i}")]
        for (p, m) in words[i:i + 40]:
            ops.append({"op": "parse", "kind": "nack", "b": [p >> 8, p & 0xff, m >> 8, m & 0xff]})
        yield ops
    # SLI: each field over its full range
    sl = []
    for first in (range(0, 8192, 37) if q else range(8192)):
        sl.append((first, r.choice([0, 1, 8191]), r.choice([0, 1, 63])))
    for num in (range(0, 8192, 41) if q else range(8192)):
        sl.append((r.choice([0, 1, 8191]), num, r.choice([0, 1, 63])))
    for pic in range(64):
        sl.append((r.choice([0, 1, 8191]), r.choice([0, 1, 8191]), pic))
    for i in range(0, len(sl), 40):
        ops = [reset(f"C15/sli/{i}")]
        for (a, b_, c) in sl[i:i + 40]:
            w = (a << 19) | (b_ << 6) | c
            ops.append({"op": "parse", "kind": "sli", "b": [(w >> 24) & 255, (w >> 16) & 255, (w >> 8) & 255, w & 255]})
        yield ops
    # gating: all 32 formats x 2 kinds
    for kind in ("tfb", "pfb"):
        for fmt in range(32):
            for fcilen in (0, 4, 8):
                b = hdr(2, False, fmt, PT[kind], (12 + fcilen) // 4 - 1) + [0, 0, 0, 1, 0, 0, 0, 2] + [0x10, 0x60, 0xf0, 0x00, 0, 0, 0, 1][:fcilen]
                yield [reset(f"C15/gate/{kind}/{fmt}/{fcilen}"), {"op": "parse", "kind": kind, "b": b}]


def c18(g, tier):
    q = tier == "quick"
    yield from header_sweep(g, 3000 if q else 80000, "C18/hdr")
    yield from mutated_images(g, 1000 if q else 30000, "C18/mut")
    yield from compound_bytes_sessions(g, 800 if q else 20000, "C18/cb")
    yield from noise(g, 400 if q else 10000, "C18/noise")
    yield from concat_sessions(g, 200 if q else 5000, "C18/concat")
    yield from fci_sessions(g, 1500 if q else 40000, "C18/fci")
    yield from reparse_sessions(g, 200 if q else 5000, "C18/reparse")
    yield from count_body_sweep(g, "C18/cnt")
    yield from padding_count_sweep(g, "C18/padcnt")
    yield from bye_body_sweep(g, "C18/bye")
    yield from huge_direct_sessions(g, "C18/huge")
    yield from big_inputs(g, "C18/big", 0)
    yield from max_packet_sessions(g, "C18/max", kinds=("unk", "rr"))
    yield from alias_pair_sessions(g, "C18/alias", ks=((1,) if q else (1, 4)))


def c19(g, tier):
    q = tier == "quick"
    r = g.r
    ops = [reset("C19/check_padding")] + [{"op": "check_padding", "p": p} for p in range(256)]
    yield ops
    for fam in range(9):
        ops = [reset(f"C19/write_header/{fam}")]
        for p in (0, 1, 4, 255):
            for cnt in range(32):
                for hlen in ([4, 8, 64, 1020, 1024, 1028, 65536] if q else list(range(4, 68, 4)) + [1020, 1024, 1028, 2048, 65536, 65540, 131072, 262144]):
                    if hlen > 1000 and cnt % 8:
                        continue
                    ops.append({"op": "write_header", "fam": fam, "p": p, "cnt": cnt, "hlen": hlen, "len": hlen + (4 if hlen < 100 else 0), "fill": r.choice([0, 1])})
        yield ops
    ops = [reset("C19/write_padding")]
    for p in range(256):
        for extra in (0, 1, 8):
            ops.append({"op": "write_padding", "p": p, "len": p + extra, "fill": 1})
    yield ops
    # check_packet through the family's parsers on swept headers
    FAM = [(242, 12), (199, 4), (207, 8), (0, 16), (255, 12), (192, 28), (242, 20), (210, 8), (211, 4)]
    for i in range(3000 if q else 60000):
        fam = r.randrange(9)
        pt, mn = FAM[fam]
        v = 2 if r.random() < 0.85 else r.choice([0, 1, 3])
        p = r.random() < 0.3
        cnt = r.randrange(32)
        ln = max(0, mn + r.choice([-8, -4, -1, 0, 0, 0, 4, 8, 12, 40]))
        words = ln // 4 - 1 if ln >= 4 else 0
        if r.random() < 0.15:
            words = max(0, words + r.choice([-1, 1]))
        tpt = pt if r.random() < 0.85 else r.choice([pt ^ 1, 200, 204, r.randrange(256)])
        b = (hdr(v, p, cnt, tpt, words) + g.bytes_(max(0, ln - 4)))[:ln]
        if p and b:
            b[-1] = r.choice([0, 4, 8, 1, r.randrange(256)])
        yield [reset(f"C19/check_packet/{i}"), {"op": "parse", "kind": "custom", "fam": fam, "b": b}]
    for i in range(200 if q else 4000):
        ln = r.choice([8, 12, 16, 20, 24])
        b = hdr(2, False, r.randrange(32), 242, ln // 4 - 1) + g.bytes_(ln - 4)
        order = r.choice([[0, 6], [6, 0], [0, 6, 0], [0, 0, 6]])
        yield [reset(f"C19/sharedpt/{i}")] + [{"op": "parse", "kind": "custom", "fam": f, "b": b} for f in order]
    for i in range(300 if q else 5000):
        ln = r.randrange(8, 40)
        b = g.bytes_(ln)
        w = r.randrange(0, ln // 4)          # parse_padding indexes b[length - 1]: keep it inside
        b[2], b[3] = 0, w
        yield [reset(f"C19/parse_helpers/{i}"), {"op": "parse_helpers", "b": b}]
    # unknown builder and custom builders: write, parse back generically, embed in compounds
    for i in range(1500 if q else 30000):
        if r.random() < 0.5:
            k, calls = g.unk(builtin_ok=(r.random() < 0.1), bad=(r.choice(["padding", "count", "data"]) if r.random() < 0.15 else None))
        else:
            k, calls = g.custom(bad=(r.choice(["padding", "count"]) if r.random() < 0.1 else None))
        ops = build_session(f"C19/build/{i}", k, calls, lens=(0, 3), fills=(0, 1), rt=True)
        ops.append({"op": "get_padding"})
        yield ops
    yield from exact_max_raw_sessions(g, "C19/max", rt=True, over=False)      # one word more is C16's rule (finding D12)
    for i in range(300 if q else 6000):
        n = r.randrange(1, 5)
        members = []
        for j in range(n):
            if r.random() < 0.7:
                k, calls = (g.unk(builtin_ok=False) if r.random() < 0.5 else g.custom())
            else:
                k, calls = g.builder(r.choice(["rr", "bye", "app"]), small=True)
            if j < n - 1:
                calls = [c for c in calls if c["c"] != "padding"]
            members.append({"kind": k, "calls": calls, "pb": k == "unk" and r.random() < 0.5})
        calls = [{"c": "new"}] + [{"c": "add_packet", "v": m} for m in members]
        ops = observe_midway(g, [reset(f"C19/compound/{i}")] + calls_to_ops("compound", calls), 0.4) + [{"op": "calc_size"}]
        if r.random() < 0.5:
            ops.append(unchecked_op(g, "compound", calls))
        ops += [{"op": "write_into", "rel": 0, "len": 64, "fill": 0}, {"op": "cparse", "src": "image"}]
        ops += [{"op": "cnext"}] * (n + 2)
        yield ops


PROFILES = {
    "C01": c01, "C02": c02, "C03": c03, "C04": c04, "C05": c05, "C06": c06, "C07": c07, "C08": c08,
    "C09": c09, "C10": c10, "C11": c11, "C12": c12, "C13": c13, "C14": c14, "C15": c15, "C16": c16,
    "C17": c17, "C18": c18, "C19": c19, "C20": c20,
}
