# The pipeline behind bin/check (see its docstring).
import argparse
import concurrent.futures
import hashlib
import json
import os
import re
import shutil
import subprocess
import sys
import time

ROOT = os.path.dirname(os.path.dirname(os.path.abspath(__file__)))
SPEC = os.path.join(ROOT, "spec")
HARNESS = os.path.join(ROOT, "harness")
RTCPV = os.path.join(HARNESS, "target", "release", "rtcpv")
JAVA_CP = "/opt/veriftools/tla/tla2tools.jar:/opt/veriftools/tla/CommunityModules-deps.jar"
ALL_PROPS = ["C%02d" % i for i in range(1, 21)]


class ToolError(Exception):
    pass


def log(*a):
    print(*a, file=sys.stderr, flush=True)


def build_harness():
    """rebuild the executor against the repository's current working tree (offline).
    Development only: VERIF_REPO=<dir> builds a private copy of the harness against another checkout
    (a scratch worktree carrying a seeded change) and leaves /verif/evidence alone."""
    global RTCPV
    env = dict(os.environ, CARGO_NET_OFFLINE="true")
    repo = os.environ.get("VERIF_REPO", "/repo")
    hdir = HARNESS
    if os.path.realpath(repo) != "/repo":
        hdir = os.path.join(ROOT, "work", "harness-" + hashlib.sha1(repo.encode()).hexdigest()[:10])
        if not os.path.isdir(hdir):
            os.makedirs(hdir)
            shutil.copytree(os.path.join(HARNESS, "src"), os.path.join(hdir, "src"))
            shutil.copytree(os.path.join(HARNESS, ".cargo"), os.path.join(hdir, ".cargo"))
            shutil.copy(os.path.join(HARNESS, "Cargo.lock"), hdir)
            toml = open(os.path.join(HARNESS, "Cargo.toml")).read().replace('path = "/repo"', f'path = "{repo}"')
            open(os.path.join(hdir, "Cargo.toml"), "w").write(toml)
        RTCPV = os.path.join(hdir, "target", "release", "rtcpv")
    if os.environ.get("VERIF_RTCPV"):
        RTCPV = os.environ["VERIF_RTCPV"]          # development: a pre-built (e.g. coverage-instrumented) executor
        return
    t0 = time.time()
    r = subprocess.run(["cargo", "build", "--release", "--offline"], cwd=hdir, env=env,
                       stdout=subprocess.PIPE, stderr=subprocess.STDOUT, text=True)
    if r.returncode != 0:
        raise ToolError("cargo build failed:\n" + r.stdout[-4000:])
    log(f"[build] executor rebuilt against {repo} working tree in {time.time() - t0:.1f}s")


def tlc_cmd(module, cfg, metadir, workers=1, xmx="3g", extra=()):
    return ["java", "-XX:+UseParallelGC", f"-Xmx{xmx}", "-Xss1g",
            "-Dtlc2.tool.queue.IStateQueue=StateDeque", "-cp", JAVA_CP, "tlc2.TLC",
            "-workers", str(workers), "-metadir", metadir, "-cleanup", "-noGenerateSpecTE",
            "-config", cfg] + list(extra) + [module]


STATES_RE = re.compile(r"(\d+) states generated, (\d+) distinct states found")


def parse_tlc_counts(out):
    m = None
    for m in STATES_RE.finditer(out):
        pass
    if not m:
        return 0, 0
    return int(m.group(2)), int(m.group(1))     # distinct states, transitions (states generated)


def write_trace_cfg(path, props):
    with open(path, "w") as f:
        f.write("SPECIFICATION TraceSpec\n")
        f.write("CONSTANT PROPS = {%s}\n" % ", ".join('"%s"' % p for p in props))
        f.write("CHECK_DEADLOCK FALSE\n")


def validate_chunk(k, sessions, props, work, timeout):
    """execute one chunk of sessions on the real crate and validate the trace with TLC.
    returns dict(bad=[(session_index, line, op)], events=n, states, transitions)"""
    script = os.path.join(work, f"script{k}.ndjson")
    trace = os.path.join(work, f"trace{k}.ndjson")
    starts = []
    n = 0
    with open(script, "w") as f:
        for s in sessions:
            starts.append(n + 1)      # 1-based line of this session's reset
            for op in s:
                f.write(json.dumps(op, separators=(",", ":")) + "\n")
                n += 1
    # A call that never returns (C01: "always terminates") would hang the executor: it runs under a time limit,
    # the operation that did not complete is identified from the flushed trace, its session is reported as a
    # violation (class "hang") and the chunk is executed again without that session.
    hung = []
    live = list(range(len(sessions)))
    while True:
        res = execute(script, trace, k)
        if res is None:
            break
        done, how = res
        si_local = max(i for i, st in enumerate(starts) if st <= done + 1)
        op = sessions[live[si_local]][done + 1 - starts[si_local]].get("op", "?")
        hung.append((live[si_local], done + 1 - starts[si_local], op, how))
        if len(hung) > 8:
            raise ToolError(f"more than 8 operations of chunk {k} did not return within the time limit")
        del live[si_local]
        starts, n = [], 0
        with open(script, "w") as f:
            for i in live:
                starts.append(n + 1)
                for o in sessions[i]:
                    f.write(json.dumps(o, separators=(",", ":")) + "\n")
                    n += 1
    bad, states, trans = tlc_validate(trace, n, props, work, k, timeout)
    out_bad = list(hung)
    for (line, op, cls) in bad:
        si = max(i for i, st in enumerate(starts) if st <= line)     # session containing this line
        out_bad.append((live[si], line - starts[si], op, cls))
    return {"bad": out_bad, "events": n, "states": states, "transitions": trans, "trace": trace, "starts": starts}


EXEC_TIMEOUT = int(os.environ.get("VERIF_EXEC_TIMEOUT", "300"))


EXEC_MEM = int(os.environ.get("VERIF_EXEC_MEM_GB", "8")) << 30


def _exec_limits():
    # an operation of the crate that allocates without bound (a loop that never ends while pushing to a vector)
    # must end in an allocation failure of the executor, not in the machine's out-of-memory killer
    import resource
    resource.setrlimit(resource.RLIMIT_AS, (EXEC_MEM, EXEC_MEM))


def _lines(path):
    try:
        with open(path) as f:
            return sum(1 for _ in f)
    except FileNotFoundError:
        return 0


def execute(script, trace, k=0):
    """run a script on the real crate; the recorded trace is written to `trace`.
    returns None when every operation returned; else (n, how): the number of operations that completed before one
    did not return within the time limit (how = "hang") or took the whole process down - stack overflow, allocation
    failure, abort: the executor catches unwinding panics itself, so a death by signal is the operation's doing
    (how = "crash"; only if a second run dies at exactly the same operation, otherwise a tool error)"""
    def once():
        try:
            r = subprocess.run([RTCPV, "exec", script, trace], stdout=subprocess.PIPE, stderr=subprocess.PIPE, text=True,
                               timeout=EXEC_TIMEOUT, preexec_fn=_exec_limits)
        except subprocess.TimeoutExpired:
            return ("hang", _lines(trace), "")
        if r.returncode < 0 or r.returncode in (134, 139):
            return ("crash", _lines(trace), f"exit {r.returncode}: {r.stderr[-500:]}")
        if r.returncode != 0:
            raise ToolError(f"executor failed on chunk {k} (exit {r.returncode}): {r.stderr[-2000:]}")
        return None
    a = once()
    if a is None:
        return None
    if a[0] == "hang":
        return (a[1], "hang")
    b = once()
    if b is None or b[0] != "crash" or b[1] != a[1]:
        raise ToolError(f"executor died on chunk {k} ({a[2]}) but not reproducibly at the same operation ({a[1]} vs {b and b[1]})")
    return (a[1], "crash")


def tlc_validate(trace, n, props, work, k, timeout):
    """validate a recorded trace of n events against Trace.tla with the conjuncts of `props` selected.
    returns ([(line, op, class)] of nonconforming events, distinct states, states generated)"""
    cfg = os.path.join(work, f"trace{k}.cfg")
    write_trace_cfg(cfg, props)
    env = dict(os.environ, TRACE=trace)
    env.pop("JAVA_TOOL_OPTIONS", None)
    try:
        t = subprocess.run(tlc_cmd("Trace.tla", cfg, os.path.join(work, f"md{k}")), cwd=SPEC, env=env,
                           stdout=subprocess.PIPE, stderr=subprocess.STDOUT, text=True, timeout=timeout)
    except subprocess.TimeoutExpired:
        raise ToolError(f"TLC timed out on chunk {k} ({n} events)")
    out = t.stdout
    end = re.search(r'<<"TRACE-END", (\d+), (\d+)>>', out)
    if not end or int(end.group(1)) != n:
        keep = os.path.join(work, f"tlc{k}.out")
        with open(keep, "w") as f:
            f.write(out)
        raise ToolError(f"TLC did not reach the end of chunk {k} ({n} events); output kept at {keep}:\n" + out[-3000:])
    bad = [(int(m.group(1)), m.group(2), m.group(3))
           for m in re.finditer(r'<<"NONCONFORMING", (\d+), "([a-z_0-9]+)", "([^"]*)">>', out)]
    states, trans = parse_tlc_counts(out)
    return bad, states, trans


def chunk_sessions(sessions, max_bytes, max_events):
    cur, size, ev = [], 0, 0
    for s in sessions:
        sz = sum(len(json.dumps(op, separators=(",", ":"))) for op in s) * 3   # results inflate the trace
        if cur and (size + sz > max_bytes or ev + len(s) > max_events):
            yield cur
            cur, size, ev = [], 0, 0
        cur.append(s)
        size += sz
        ev += len(s)
    if cur:
        yield cur


def load_known():
    p = os.path.join(ROOT, "known_findings.json")
    if not os.path.exists(p):
        return []
    return json.load(open(p)).get("findings", [])


def finding_for(known, prop, cls):
    """a recorded (status = known) finding with exactly this property and specification-computed class"""
    for k in known:
        if k.get("status") == "known" and k["property"] == prop and cls != "-" and k.get("class") == cls:
            return k
    return None


NONTRIVIAL = {
    # property -> predicate on a recorded event (dict) saying whether it is a non-trivial case
    "C08": lambda e: e.get("op") in ("parse_all", "parse") and not first_len_reject(e),
    "C18": lambda e: e.get("op") in ("parse_all", "parse", "cparse") and is_err(e) and not first_len_reject(e),
}


def is_err(e):
    r = e.get("res")
    return isinstance(r, dict) and r.get("t") == "err"


def first_len_reject(e):
    r = e.get("res")
    b = e.get("b")
    return isinstance(r, dict) and r.get("t") == "err" and r.get("e") == "Truncated" and isinstance(b, list) and len(b) < 4


def default_nontrivial(e):
    return e.get("op") not in ("reset", "call", "wrap", "nack_iter")


def summarize_trace(path, prop, seen, counts, samples):
    pred = NONTRIVIAL.get(prop, default_nontrivial)
    with open(path) as f:
        for line in f:
            try:
                e = json.loads(line)
            except Exception:
                continue
            op = e.get("op")
            counts[op] = counts.get(op, 0) + 1
            if prop == "C12" and op == "parse_all":
                # the (source variant, target type) conversion matrix actually exercised
                r = e.get("res", {})
                if isinstance(r, dict) and r.get("t") == "ok":
                    v = r["view"].get("variant")
                    for t in (r["view"].get("conv") or {}):
                        key = f"matrix:{v}->{t}"
                        counts[key] = counts.get(key, 0) + 1
            if pred(e):
                e.pop("sid", None)
                h = hashlib.blake2b(line.encode(), digest_size=8).digest()
                seen.add(h)
                if len(samples) < 3 and len(line) < 1500 and op not in ("reset",):
                    samples.append(e)


def run_sessions(prop, sessions_iter, props, work, jobs, chunk_bytes=1_500_000, chunk_events=6000, timeout=1800,
                 keep_sessions=True):
    """returns (stats, violations) ; violations = list of (session, line_in_session, op)"""
    stats = {"events": 0, "sessions": 0, "states": 0, "transitions": 0, "chunks": 0, "ops": {}, "distinct": set(), "samples": []}
    violations = []
    futs = {}
    with concurrent.futures.ThreadPoolExecutor(max_workers=jobs) as ex:
        k = 0
        pending = set()
        for chunk in chunk_sessions(sessions_iter, chunk_bytes, chunk_events):
            fut = ex.submit(validate_chunk, k, chunk, props, work, timeout)
            futs[fut] = chunk
            pending.add(fut)
            k += 1
            # bound memory: do not let generation run far ahead of validation
            while len(pending) >= jobs * 2:
                done, pending = concurrent.futures.wait(pending, return_when=concurrent.futures.FIRST_COMPLETED)
                for d in done:
                    collect(prop, d, futs.pop(d), stats, violations)
        for d in concurrent.futures.as_completed(list(pending)):
            collect(prop, d, futs.pop(d), stats, violations)
    return stats, violations


def collect(prop, fut, chunk, stats, violations):
    res = fut.result()
    stats["events"] += res["events"]
    stats["sessions"] += len(chunk)
    stats["states"] += res["states"]
    stats["transitions"] += res["transitions"]
    stats["chunks"] += 1
    summarize_trace(res["trace"], prop, stats["distinct"], stats["ops"], stats["samples"])
    for (si, off, op, cls) in res["bad"]:
        violations.append((chunk[si], off, op, cls))
    try:
        os.remove(res["trace"])
        os.remove(res["trace"].replace("trace", "script"))
    except OSError:
        pass


def save_replay(prop, session):
    d = os.path.join(ROOT, "replays")
    os.makedirs(d, exist_ok=True)
    body = "".join(json.dumps(op, separators=(",", ":")) + "\n" for op in session)
    h = hashlib.sha1(body.encode()).hexdigest()[:12]
    p = os.path.join(d, f"{prop}-{h}.ndjson")
    with open(p, "w") as f:
        f.write(body)
    return p


def write_evidence(prop, tier, seed, stats, wall, nviol, extra):
    if os.path.realpath(os.environ.get("VERIF_REPO", "/repo")) != "/repo":
        return          # development run against another checkout: not evidence
    os.makedirs(os.path.join(ROOT, "evidence"), exist_ok=True)
    cov = {
        "states": stats["states"],
        "transitions": stats["transitions"],
        "traces_validated_against_impl": stats["sessions"],
        "samples": stats["samples"][:3] or [{"note": "no sample short enough to print"}],
        "evaluations": stats["events"],
        "distinct_nontrivial": len(stats["distinct"]),
        "rule": extra.get("rule", ""),
        "exhaustive": extra.get("exhaustive", False),
        "events_per_operation": stats["ops"],
        "tlc_runs": stats["chunks"],
    }
    cov.update(extra.get("coverage", {}))
    ev = {
        "property_id": prop,
        "tier": tier,
        "seed": seed,
        "level": "model_checking",
        "coverage": cov,
        "assumptions": extra.get("assumptions", []),
        "wall_s": round(wall, 2),
        "violations": nviol,
    }
    with open(os.path.join(ROOT, "evidence", f"{prop}.json"), "w") as f:
        json.dump(ev, f, indent=1)


def main():
    ap = argparse.ArgumentParser()
    ap.add_argument("prop")
    ap.add_argument("--tier", default=os.environ.get("VERIF_TIER", "quick"), choices=["quick", "thorough"])
    ap.add_argument("--replay")
    ap.add_argument("--props", help="comma separated property ids to enforce (default: the property itself)")
    ap.add_argument("--jobs", type=int, default=int(os.environ.get("VERIF_JOBS", "12")))
    ap.add_argument("--no-build", action="store_true")
    ap.add_argument("--keep", action="store_true")
    args = ap.parse_args()
    prop = args.prop
    seed = int(os.environ.get("VERIF_SEED", "20260929"))
    t0 = time.time()
    work = os.path.join(ROOT, "work", f"{prop}-{args.tier}-{os.getpid()}")
    shutil.rmtree(work, ignore_errors=True)
    os.makedirs(work)
    try:
        if not args.no_build:
            build_harness()
        props = args.props.split(",") if args.props else [prop]
        if args.replay:
            sessions = [[json.loads(l) for l in open(args.replay) if l.strip()]]
            stats, viol = run_sessions(prop, iter(sessions), props, work, 1)
            known = load_known()
            for (_s, off, op, cls) in viol:
                kf = finding_for(known, prop, cls)
                if kf:
                    print(f"KNOWN-FINDING: property={prop} {kf['what']} [class {cls}]")
            viol = [v for v in viol if not finding_for(known, prop, v[3])]
            if viol:
                for (_s, off, op, cls) in viol:
                    log(f"  event #{off} ({op}) is not allowed by the specification (class {cls})")
                print(f"VIOLATION property={prop} replay={args.replay}")
                sys.exit(1)
            print(f"replay conforms ({stats['events']} events)")
            sys.exit(0)
        import plan
        code = plan.run_property(prop, args.tier, seed, work, args.jobs, t0)
        sys.exit(code)
    except ToolError as e:
        print(f"TOOL-ERROR: {e}", file=sys.stderr)
        sys.exit(2)
    except Exception:
        import traceback
        print("TOOL-ERROR: unexpected exception in the orchestrator:\n" + traceback.format_exc(), file=sys.stderr)
        sys.exit(2)
    finally:
        if not args.keep:
            shutil.rmtree(work, ignore_errors=True)
