# What is run for each property: the TLC model-checking groups (spec -> implementation scripts
# plus design-level invariants) and the random driver profile (implementation -> spec), then the
# verdict, known findings and evidence.
import os
import sys
import time

import runner
from runner import ROOT, log
from gen import G
import profiles

RULES = {
    "C01": "sessions = mutated crate-written images, header sweeps, noise, compounds with extra next(), FCI bodies, NACK iterators, >64KiB inputs; non-trivial = any executed call other than builder set-up; distinct = distinct recorded event lines",
    "C08": "non-trivial = a parse event that is accepted or rejected by something other than the first length test (input < 4 bytes)",
    "C18": "non-trivial = a rejected parse whose error is not the first-length-test truncation",
}
DEFAULT_RULE = "every executed public call with its complete result is one evaluation; non-trivial = calls other than builder set-up (reset/call/wrap); distinct = distinct recorded event lines (arguments + result)"


def run_property(prop, tier, seed, work, jobs, t0):
    g = G(seed * 1000 + int(prop[1:]))
    known = runner.load_known()
    sessions = profiles.PROFILES[prop](g, tier)
    extra = {"rule": RULES.get(prop, DEFAULT_RULE), "coverage": {}, "assumptions": [
        "the executor (harness/src) projects results faithfully: value-free glue, no RTCP arithmetic",
        "TLC evaluates the specification correctly; tla2tools 1.8.0 + CommunityModules",
        "outside the enumerated small scope, coverage is seeded sampling (VERIF_SEED) judged by the total oracle",
    ]}
    # the binding self-test: corrupted copies of a recorded trace must be rejected (DESIGN.md 3.5)
    st_viol = []
    if os.environ.get("VERIF_SELFTEST", "1") == "1":
        import selftest
        st_stats, st_viol = selftest.run([prop], os.path.join(work, "selftest"))
        extra["coverage"]["binding_selftest"] = st_stats
    if tier == "thorough" or os.environ.get("VERIF_LEMMAS") == "1":
        import lemmas
        if prop in lemmas.RELEVANT:
            res = lemmas.prove(work)
            res["theorems_used_for_this_property"] = lemmas.RELEVANT[prop]
            extra["coverage"]["tlaps_lemmas"] = res
            if res["status"] not in ("proved", "skipped"):
                log(f"[lemmas] WARNING: spec/Lemmas.tla not fully proved ({res}); this concerns the specification only")
            else:
                log(f"[lemmas] spec/Lemmas.tla: {res}")
    mc_stats = None
    try:
        import mc
        mc_sessions, mc_stats = mc.generate(prop, tier, seed, work, jobs)
    except ImportError:
        mc_sessions = []
    if mc_stats:
        extra["coverage"]["model_checking_runs"] = mc_stats["runs"]
        extra["exhaustive"] = mc_stats.get("exhaustive", False)

    def all_sessions():
        for s in mc_sessions:
            yield s
        for s in sessions:
            yield s

    stats, viol = runner.run_sessions(prop, all_sessions(), [prop], work, jobs)
    viol = list(st_viol) + list(viol)
    if mc_stats:
        stats["states"] += mc_stats["states"]
        stats["transitions"] += mc_stats["transitions"]
        extra["coverage"]["spec_to_impl_behaviours"] = mc_stats["behaviours"]
    extra["coverage"]["impl_to_spec_sessions"] = stats["sessions"] - (mc_stats["behaviours"] if mc_stats else 0)

    code = 0
    reported = set()
    nviol = 0
    nknown = 0
    for (session, off, op, cls) in viol:
        sid = session[0].get("sid", "?")
        kf = runner.finding_for(known, prop, cls)
        if kf:
            if cls not in reported:
                reported.add(cls)
                print(f"KNOWN-FINDING: property={prop} {kf['what']} [class {cls}; e.g. session {sid}, {op}]")
            nknown += 1
            continue
        nviol += 1
        if nviol <= 20:
            path = runner.save_replay(prop, session)
            print(f"VIOLATION property={prop} replay={path}")
            log(f"  session {sid}: event #{off} ({op}) is not allowed by the specification")
        code = 1
    if prop == "C12":
        cells = {k[7:]: v for k, v in stats["ops"].items() if k.startswith("matrix:")}
        for k in list(stats["ops"]):
            if k.startswith("matrix:"):
                del stats["ops"][k]
        extra["coverage"]["conversion_matrix_cells"] = cells
        want = {f"{v}->{t}" for v in ("sr", "rr", "sdes", "bye", "app", "tfb", "pfb", "unknown") for t in ("sr", "rr", "sdes", "bye", "app", "tfb", "pfb")}
        missing = sorted(want - set(cells))
        if missing and code == 0:
            raise runner.ToolError(f"C12: conversion matrix cells never exercised (vacuity guard): {missing}")
    extra["coverage"]["known_findings_matched"] = sorted(reported)
    extra["coverage"]["events_matching_known_findings"] = nknown
    wall = time.time() - t0
    runner.write_evidence(prop, tier, seed, stats, wall, nviol, extra)
    log(f"[{prop}] {tier}: {stats['sessions']} sessions, {stats['events']} events validated in {stats['chunks']} TLC runs, "
        f"{len(stats['distinct'])} distinct non-trivial, {nviol} violations, {wall:.1f}s")
    return code
