# Showing that the binding is real: a trace recorded from the real crate is accepted by Trace.tla, and
# the same trace with ONE recorded field corrupted (one byte of a written image, one next() result, one
# error payload, one slice offset, ...) or ONE event of a stateful session removed is rejected, at exactly
# that line, by exactly the properties whose conjuncts read that field.  A specification that nothing
# constrains (or a trace spec that only counts lines) would fail this test.
import copy
import json
import os

import runner
from runner import ToolError, log

A32, B32, C32 = [0, 1], [65535, 65535], [0, 65280]


def reset(sid):
    return {"op": "reset", "sid": sid}


def call(c, kind=None):
    o = {"op": "call", "c": c}
    if kind:
        o["kind"] = kind
    return o


def base_sessions():
    rb = [{"c": "new", "ssrc": B32}, {"c": "fraction", "v": 255}, {"c": "cumulative", "v": [255, 65535]}, {"c": "jitter", "v": C32}]
    S = {}
    S["sr"] = [reset("st/sr"), call({"c": "new", "ssrc": C32}, "sr"), call({"c": "ntp", "v": [1, 2, 3, 4]}), call({"c": "add_rb", "v": rb}),
               {"op": "calc_size"}, {"op": "write_twice", "rel": 3, "len": 64},
               {"op": "parse", "kind": "sr", "src": "image"}, {"op": "parse_pad", "kind": "sr", "src": "image", "n": 8}]
    S["bye"] = [reset("st/bye"), call({"c": "new"}, "bye"), call({"c": "add_source", "v": A32}),
                call({"c": "reason", "v": [97, 98], "mode": "owned"}), call({"c": "padding", "v": 4}),
                {"op": "calc_size"}, {"op": "get_padding"}, {"op": "write_into", "rel": 2, "len": 64, "fill": 1},
                {"op": "write_unchecked", "fill": 0, "decoy": {"kind": "bye", "calls": [{"c": "new"}, {"c": "add_source", "v": B32}]}},
                {"op": "write_into", "rel": 1, "len": 64, "fill": 4},
                {"op": "parse", "kind": "bye", "src": "image"}]
    ch = {"ssrc": C32, "via": "builder", "adds": [{"owned": False, "item": [{"c": "new", "type": 1, "value": [97, 98, 99], "mode": "borrowed"}]},
                                                  {"owned": True, "item": [{"c": "new", "type": 8, "value": [118], "mode": "borrowed"},
                                                                           {"c": "prefix", "v": [112, 113], "mode": "borrowed"}]}]}
    S["sdes"] = [reset("st/sdes"), call({"c": "new"}, "sdes"), call({"c": "add_chunk", "v": ch}),
                 {"op": "calc_size"}, {"op": "write_into", "rel": 0, "len": 64, "fill": 0}, {"op": "parse", "kind": "sdes", "src": "image"}]
    S["nack"] = [reset("st/nack"), call({"c": "new", "fci": {"f": "nack", "adds": [5, 6, 40]}, "owned": False}, "tfb"),
                 call({"c": "sender", "v": B32}), {"op": "calc_size"}, {"op": "write_into", "rel": 0, "len": 64, "fill": 0},
                 {"op": "parse", "kind": "tfb", "src": "image"}]
    S["badpad"] = [reset("st/badpad"), call({"c": "new"}, "bye"), call({"c": "padding", "v": 5}), {"op": "calc_size"},
                   {"op": "write_into", "len": 32, "fill": 1}]
    unk = {"kind": "unk", "pb": True, "calls": [{"c": "new", "type": 77, "data": [1, 2, 3, 4], "via": "builder"}]}
    rr = {"kind": "rr", "pb": False, "calls": [{"c": "new", "ssrc": A32}]}
    S["compound"] = [reset("st/compound"), call({"c": "new"}, "compound"), call({"c": "add_packet", "v": rr}), call({"c": "add_packet", "v": unk}),
                     {"op": "calc_size"}, {"op": "write_into", "rel": 0, "len": 64, "fill": 0},
                     {"op": "cparse", "src": "image"}, {"op": "cnext", "tile": [0, 8]}, {"op": "cnext", "tile": [8, 8]}, {"op": "cnext"}]
    T1, T2, T3 = [0x80, 203, 0, 0], [0x81, 201, 0, 1, 9, 9, 9, 9], [0x81, 203, 0, 1, 1, 2, 3, 4]
    S["iter"] = [reset("st/iter"), {"op": "cparse", "b": T1 + T3 + T2 + T1},
                 {"op": "cnext", "tile": [0, 4]}, {"op": "cnext", "tile": [4, 8]}, {"op": "cnext", "tile": [12, 8]}, {"op": "cnext"}, {"op": "cnext"}]
    S["nit"] = [reset("st/nit"), {"op": "nack_open", "b": [0, 10, 0, 5, 255, 255, 128, 0]}, {"op": "nack_iter", "it": 0}] + \
               [{"op": "nack_next", "it": 0}] * 7 + [{"op": "nack_pair", "a": [0, 10, 0, 5], "b": [255, 255, 128, 0]}]
    S["all"] = [reset("st/all"), {"op": "parse_all", "b": [0x81, 201, 0, 7, 0, 0, 0, 1] + list(range(1, 25))}]
    S["err"] = [reset("st/err"), {"op": "parse", "kind": "rr", "b": [0x80, 201, 0, 3, 0, 0, 0, 1]},
                {"op": "parse", "kind": "bye", "b": [0x40, 203, 0, 0]}, {"op": "cparse", "b": [0x80, 201]}]
    S["helpers"] = [reset("st/helpers"), {"op": "check_padding", "p": 5}, {"op": "check_padding", "p": 8},
                    {"op": "write_header", "fam": 0, "p": 4, "cnt": 3, "hlen": 16, "len": 20, "fill": 1},
                    {"op": "write_padding", "p": 8, "len": 12, "fill": 1},
                    {"op": "parse", "kind": "custom", "fam": 0, "b": [0x83, 242, 0, 2, 0, 0, 0, 1, 5, 6, 7, 8]}]
    return S


def first(evs, pred):
    for i, e in enumerate(evs):
        if pred(e):
            return i
    raise ToolError("selftest: no event to corrupt")


def op_is(name, **kw):
    return lambda e: e.get("op") == name and all(e.get(k) == v for k, v in kw.items())


# (name, session, properties that must reject, mutate(events) -> index of the line that must be reported)
def corruptions():
    C = []

    def add(name, sess, props, find, mut, shift=0):
        C.append((name, sess, props, find, mut, shift))

    def flip_image_byte(e):
        e["out"][5] ^= 0x10

    def beyond_n(e):
        e["out1"][e["res1"]["n"]] ^= 0xff

    add("sr: one byte of the written image", "sr", ["C07", "C20"], op_is("write_twice"), flip_image_byte)
    add("sr: second write differs from the first inside n", "sr", ["C17"], op_is("write_twice"), lambda e: e["out1"].__setitem__(9, e["out1"][9] ^ 1))
    add("sr: a byte beyond n changed", "sr", ["C17"], op_is("write_twice"), beyond_n)
    add("sr: write returns n + 4", "sr", ["C06", "C07", "C20"], op_is("write_twice"), lambda e: e["res"].__setitem__("n", e["res"]["n"] + 4))
    add("sr: announced size + 4", "sr", ["C07", "C20"], op_is("calc_size"), lambda e: e["res"].__setitem__("n", e["res"]["n"] + 4))
    add("sr: announced size not what is written", "sr", ["C06"], op_is("calc_size"), lambda e: e["res"].__setitem__("n", e["res"]["n"] + 4), 1)
    add("sr: parsed ssrc limb", "sr", ["C02", "C09"], op_is("parse", kind="sr"), lambda e: e["res"]["view"]["ssrc"].__setitem__(1, 7))
    add("sr: parsed block jitter", "sr", ["C02", "C09"], op_is("parse", kind="sr"), lambda e: e["res"]["view"]["blocks"][0]["jitter"].__setitem__(0, 9))
    add("sr: header count accessor", "sr", ["C08"], op_is("parse", kind="sr"), lambda e: e["res"]["view"]["hdr"].__setitem__("count", 2))
    add("sr: padded view loses a block field", "sr", ["C13"], op_is("parse_pad"), lambda e: e["res_padded"]["view"]["blocks"][0].__setitem__("fraction", 1))
    add("sr: padded view reports another padding", "sr", ["C13"], op_is("parse_pad"), lambda e: e["res_padded"]["view"]["hdr"].__setitem__("padding", 4))
    add("sr: accessor panic recorded", "sr", ["C01", "C02", "C09"], op_is("parse", kind="sr"), lambda e: e["panics"].append("blocks: boom"))
    add("sr: repeated nth(1) yields another element", "sr", ["C02", "C09"], op_is("parse", kind="sr"),
        lambda e: e["res"]["view"]["blocks_alt"].__setitem__("n", 2))
    add("sr: a second read differs", "sr", ["C09"], op_is("parse", kind="sr"), lambda e: e["res"]["view"].__setitem__("again", False))
    add("sr: a fresh parse read in another order differs", "sr", ["C09"], op_is("parse", kind="sr"), lambda e: e["res"].__setitem__("fresh_same", False))
    add("sr: a clone of the parsed value differs from it", "sr", ["C09"], op_is("parse", kind="sr"), lambda e: e["res"].__setitem__("clone_same", False))
    add("bye: last() of the source iterator", "bye", ["C04", "C09"], op_is("parse", kind="bye"),
        lambda e: e["res"]["view"]["ssrcs_alt"].__setitem__("last", []))
    add("bye: count() on the source iterator itself after one next()", "bye", ["C04", "C09"], op_is("parse", kind="bye"),
        lambda e: e["res"]["view"]["ssrcs_alt"]["lastd"][1].__setitem__(2, e["res"]["view"]["ssrcs_alt"]["lastd"][1][2] + 1))
    add("sr: last() on the block iterator itself", "sr", ["C02", "C09"], op_is("parse", kind="sr"),
        lambda e: e["res"]["view"]["blocks_alt"]["lastd"][0].__setitem__(1, []))
    add("all: conversion error names another actual type", "all", ["C12", "C18"], op_is("parse_all"),
        lambda e: e["res"]["view"]["conv"]["bye"]["f"].__setitem__(0, 203))
    add("bye: unchecked write returns another size", "bye", ["C06", "C07", "C20"], op_is("write_unchecked"),
        lambda e: e["res"].__setitem__("n", e["res"]["n"] - 4))
    add("bye: unchecked write leaves a byte of the reused image", "bye", ["C07", "C20"], op_is("write_unchecked"),
        lambda e: e["out"].__setitem__(9, e["out"][9] ^ 0x20))
    add("bye: write over a reused buffer touches a byte beyond n", "bye", ["C17"], op_is("write_into", fill=4),
        lambda e: e["out"].__setitem__(e["res"]["n"], e["out"][e["res"]["n"]] ^ 0xff))
    add("nit: interleaved iteration of two lists mixes them", "nit", ["C15"], op_is("nack_pair"),
        lambda e: e["res"]["a"].__setitem__(0, e["res"]["b"][0]))
    add("all: typed value wrapped into the generic enum changes", "all", ["C12"], op_is("parse_all"),
        lambda e: e["typed"]["rr"]["as_packet"].__setitem__("same", False))
    add("compound: iteration by nth() differs from next()", "compound", ["C11", "C14"], op_is("cparse"),
        lambda e: e["alt"]["nth"][1].__setitem__(1, []))
    add("bye: reason slice offset", "bye", ["C04", "C09"], op_is("parse", kind="bye"), lambda e: e["res"]["view"]["reason"].__setitem__("o", e["res"]["view"]["reason"]["o"] + 1))
    add("bye: padding accessor", "bye", ["C04", "C08"], op_is("parse", kind="bye"), lambda e: e["res"]["view"]["hdr"].__setitem__("padding", 8))
    add("bye: padding trailer byte", "bye", ["C07", "C20"], op_is("write_into"), lambda e: e["out"].__setitem__(e["res"]["n"] - 1, 8))
    add("bye: get_padding", "bye", ["C20", "C14"], op_is("get_padding"), lambda e: e["res"].__setitem__("n", 8))
    add("sdes: item value offset", "sdes", ["C03", "C10"], op_is("parse", kind="sdes"),
        lambda e: e["res"]["view"]["chunks"][0]["items"][1]["value"].__setitem__("o", e["res"]["view"]["chunks"][0]["items"][1]["value"]["o"] - 1))
    add("sdes: chunk length", "sdes", ["C10"], op_is("parse", kind="sdes"), lambda e: e["res"]["view"]["chunks"][0].__setitem__("length", 12))
    add("sdes: prefix length", "sdes", ["C03", "C10"], op_is("parse", kind="sdes"), lambda e: e["res"]["view"]["chunks"][0]["items"][1].__setitem__("plen", 1))
    add("nack: decoded entries", "nack", ["C05", "C15"], op_is("parse", kind="tfb"), lambda e: e["res"]["view"]["fci"]["nack"]["entries"].pop())
    add("nack: wrong-kind FCI accepted", "nack", ["C15"], op_is("parse", kind="tfb"), lambda e: e["res"]["view"]["fci"].__setitem__("pli", {"t": "ok"}))
    add("nack: a non-minimal / different NACK word", "nack", ["C07", "C20"], op_is("write_into"), lambda e: e["out"].__setitem__(15, e["out"][15] ^ 2))
    add("badpad: error payload", "badpad", ["C16", "C20"], op_is("calc_size"), lambda e: e["res"]["f"].__setitem__(0, 4))
    add("badpad: invalid configuration accepted", "badpad", ["C16", "C20"], op_is("calc_size"), lambda e: e.__setitem__("res", {"t": "ok", "n": 8}))
    add("badpad: failed write touched the buffer", "badpad", ["C17"], op_is("write_into"), lambda e: e["out"].__setitem__(0, 0x80))
    add("badpad: write error differs from the size error", "badpad", ["C06"], op_is("write_into"), lambda e: e["res"]["f"].__setitem__(0, 9))
    add("compound: second member's bytes", "compound", ["C14", "C07"], op_is("write_into"), lambda e: e["out"].__setitem__(13, 9))
    add("compound: size is not the sum", "compound", ["C14", "C07"], op_is("calc_size"), lambda e: e["res"].__setitem__("n", 20))
    add("compound: parsed member field", "compound", ["C14"], lambda e: e.get("op") == "cnext" and e.get("tile") == [0, 8],
        lambda e: e["res"]["item"]["view"]["inner"]["ssrc"].__setitem__(1, 2))
    add("compound: one member too few", "compound", ["C14", "C11"], lambda e: e.get("op") == "cnext" and e.get("tile") == [8, 8],
        lambda e: e.__setitem__("res", {"t": "none"}))
    add("iter: compound rejected", "iter", ["C11"], op_is("cparse"), lambda e: e.__setitem__("res", {"t": "err", "e": "Truncated", "f": [28, 24]}))
    add("iter: yields after an error", "iter", ["C11"], lambda e: e.get("op") == "cnext" and "tile" not in e,
        lambda e: e.__setitem__("res", {"t": "some", "item": {"t": "err", "e": "Truncated", "f": [4, 0]}}))
    add("iter: item differs from the generic parser", "iter", ["C11"], lambda e: e.get("op") == "cnext" and e.get("tile") == [4, 8],
        lambda e: e["res"]["item"]["view"]["inner"]["ssrcs"][0].__setitem__(1, 5))
    add("iter: next() call removed", "iter", ["C11"], lambda e: e.get("op") == "cnext" and e.get("tile") == [0, 4], "REMOVE")
    add("nit: one entry value", "nit", ["C15"], lambda e: e.get("op") == "nack_next" and e["res"].get("v") == 13, lambda e: e["res"].__setitem__("v", 12))
    add("nit: next() call removed", "nit", ["C15"], lambda e: e.get("op") == "nack_next" and e["res"].get("v") == 11, "REMOVE")
    add("nit: ends one step early", "nit", ["C15"], lambda e: e.get("op") == "nack_next" and e["res"].get("v") == 15, lambda e: e.__setitem__("res", {"t": "none"}))
    add("nit: panics", "nit", ["C01", "C15"], lambda e: e.get("op") == "nack_next" and e["res"].get("v") == 13, lambda e: e.__setitem__("res", {"t": "panic", "msg": "x"}))
    add("all: generic variant", "all", ["C12", "C08"], op_is("parse_all"), lambda e: e["res"]["view"].__setitem__("variant", "sr"))
    add("all: conversion to another type", "all", ["C12"], op_is("parse_all"), lambda e: e["res"]["view"]["conv"]["bye"]["f"].__setitem__(1, 201))
    add("all: typed parser disagrees with generic", "all", ["C12", "C09"], op_is("parse_all"), lambda e: e["typed"]["rr"]["view"]["ssrc"].__setitem__(1, 2))
    add("all: unknown data range", "all", ["C12", "C09"], op_is("parse_all"), lambda e: e["typed"]["unknown"]["view"]["data"].__setitem__("n", 28))
    add("err: truncated payload", "err", ["C18"], op_is("parse", kind="rr"), lambda e: e["res"]["f"].__setitem__(0, 8))
    add("err: version payload", "err", ["C18"], op_is("parse", kind="bye"), lambda e: e["res"]["f"].__setitem__(0, 2))
    add("err: compound minimum", "err", ["C18"], op_is("cparse"), lambda e: e["res"]["f"].__setitem__(0, 8))
    add("err: ill-framed packet accepted", "err", ["C08"], op_is("parse", kind="rr"),
        lambda e: e.__setitem__("res", {"t": "ok", "view": {"hdr": {"version": 2, "type": 201, "count": 0, "subtype": 0, "length": 8, "padding": -1},
                                                            "ssrc": [0, 1], "n_reports": 0, "blocks": []}}))
    add("helpers: check_padding verdict", "helpers", ["C19"], op_is("check_padding", p=8), lambda e: e.__setitem__("res", {"t": "err", "e": "InvalidPadding", "f": [8]}))
    add("helpers: header count bits", "helpers", ["C19"], op_is("write_header"), lambda e: e["out"].__setitem__(0, e["out"][0] ^ 1))
    add("helpers: header writer touches byte 5", "helpers", ["C19"], op_is("write_header"), lambda e: e["out"].__setitem__(4, 0))
    add("helpers: padding count", "helpers", ["C19"], op_is("write_padding"), lambda e: e["out"].__setitem__(7, 4))
    add("helpers: framed custom packet rejected", "helpers", ["C19"], op_is("parse", kind="custom"),
        lambda e: e["res"].__setitem__("direct", {"t": "err", "e": "Truncated", "f": [16, 12]}))
    return C


ALL = ["C%02d" % i for i in range(1, 21)]


def run(props, work, jobs=8):
    """returns dict(corruptions=n, rejected=n, details=[...]); raises ToolError if the binding test fails"""
    os.makedirs(work, exist_ok=True)
    S = base_sessions()
    names = list(S)
    script = os.path.join(work, "selftest.script.ndjson")
    trace = os.path.join(work, "selftest.trace.ndjson")
    with open(script, "w") as f:
        for nme in names:
            for op in S[nme]:
                f.write(json.dumps(op, separators=(",", ":")) + "\n")
    if runner.execute(script, trace) is not None:
        raise ToolError("an operation of the self-test sessions did not return within the time limit")
    recorded = [json.loads(l) for l in open(trace)]
    # split back into sessions
    sess = {}
    cur = None
    for e in recorded:
        if e["op"] == "reset":
            cur = e["sid"].split("/")[1]
            sess[cur] = []
        sess[cur].append(e)
    details = []
    base_violations = []
    total = rejected = 0
    starts, n0 = [], 0
    for nme in names:
        starts.append(n0 + 1)
        n0 += len(sess[nme])
    base_len = n0
    for k, p in enumerate(props):
        lines = []
        expect = {}
        skipped = []
        for nme in names:                       # the uncorrupted trace first: must be accepted
            lines.extend(sess[nme])
        for (cname, sname, cprops, find, mut, shift) in corruptions():
            if p not in cprops:
                continue
            evs = copy.deepcopy(sess[sname])
            try:
                i = first(evs, find)
                if mut == "REMOVE":
                    del evs[i]                       # the NEXT event of the session no longer fits the state
                else:
                    mut(evs[i])
            except (KeyError, IndexError, TypeError, ToolError):
                # the recorded base trace lacks what this corruption edits (e.g. an accessor panicked and its
                # field is missing): the base trace itself is then nonconforming and is reported below
                skipped.append(cname)
                continue
            evs[0]["sid"] = f"st/{sname}/{cname}"
            expect[len(lines) + i + shift + 1] = cname
            lines.extend(evs)
        path = os.path.join(work, f"selftest.{p}.ndjson")
        with open(path, "w") as f:
            for e in lines:
                f.write(json.dumps(e, separators=(",", ":")) + "\n")
        bad, _, _ = runner.tlc_validate(path, len(lines), [p], work, f"st{k}", 600)
        got = {line for (line, _op, _cls) in bad}
        base_bad = [(line, op, cls) for (line, op, cls) in bad if line <= base_len]
        if base_bad:
            # the UNCORRUPTED trace of the real crate is rejected: that is a finding about the crate, to be
            # reported as a violation by the caller, not a failure of the self-test
            for (line, op, cls) in base_bad:
                si = max(i for i, st in enumerate(starts) if st <= line)
                base_violations.append((S[names[si]], line - starts[si], op, cls))
            continue
        if skipped:
            raise ToolError(f"binding self-test for {p}: corruptions {skipped} could not be applied although the base trace conforms")
        missing = [c for l, c in expect.items() if l not in got]
        extra = sorted(got - set(expect))
        total += len(expect)
        rejected += len(expect) - len(missing)
        details.append({"property": p, "corruptions": len(expect), "rejected_at_the_corrupted_line": len(expect) - len(missing)})
        if missing or extra:
            raise ToolError(f"binding self-test failed for {p}: corrupted traces accepted: {missing}; unexpected rejections at lines {extra} (trace {path})")
    return {"corruptions": total, "rejected": rejected, "details": details}, base_violations
